//! Languages whose generated `weak_shape_inplace` is extracted from the macro expansion (unit U3, C16).
//! One variant per combination of field kinds the derive macro supports: plain slots, child e-classes,
//! binders (single, nested, before / after a free child, two binders), payloads; plus the variant shapes of the
//! test languages of /repo/tests (arith, lambda, rise, sdql, var).  Split into small enums to keep each
//! generated function a small verification query.
use slotted_egraphs::*;

define_language! {
    pub enum VL1 {
        Var(Slot) = "var",
        Two(Slot, Slot) = "two",
        App(AppliedId, AppliedId) = "app",
        Lam(Bind<AppliedId>) = "lam",
        Let(Bind<AppliedId>, AppliedId) = "let",
        LetRev(AppliedId, Bind<AppliedId>) = "letrev",
    }
}
define_language! {
    pub enum VL2 {
        Nest(Bind<Bind<AppliedId>>) = "nest",
        TwoBinds(Bind<AppliedId>, Bind<AppliedId>) = "twobinds",
        SlotThenBind(Slot, Bind<AppliedId>) = "slotthenbind",
        Num(u32),
        Sym(Symbol),
        Mixed(u32, Slot, AppliedId, Bind<Slot>) = "mixed",
    }
}
// shapes of the test languages: tests/lambda (Lam/App/Var/Let), tests/arith (Add/Mul/Number/Symbol + lambda),
// tests/rise (Lam/App/Var/Let/Number/Symbol), tests/sdql (Sum(Bind, Bind-body)...), tests/var
define_language! {
    pub enum VL3 {
        Sum(Bind<AppliedId>) = "sum",
        Add(AppliedId, AppliedId) = "add",
        Fix(Bind<AppliedId>) = "fix",
        SumRange(Bind<Bind<AppliedId>>, AppliedId) = "sumrange",
        Number(u32),
        Symb(Symbol),
    }
}
