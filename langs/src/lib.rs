//! Languages whose generated `weak_shape_inplace` is extracted from the macro expansion (unit U3, C16).
//! One variant per combination of field kinds the derive macro supports: plain slots, child e-classes,
//! binders (single, nested, before / after a free child, two binders), payloads; plus the shapes of the
//! five test languages of /repo/tests (arith, lambda, rise, sdql, var).
use slotted_egraphs::*;

define_language! {
    pub enum VL {
        // one field of each kind
        Var(Slot) = "var",
        Two(Slot, Slot) = "two",
        App(AppliedId, AppliedId) = "app",
        Lam(Bind<AppliedId>) = "lam",
        Let(Bind<AppliedId>, AppliedId) = "let",
        LetRev(AppliedId, Bind<AppliedId>) = "letrev",
        Nest(Bind<Bind<AppliedId>>) = "nest",
        TwoBinds(Bind<AppliedId>, Bind<AppliedId>) = "twobinds",
        SlotThenBind(Slot, Bind<AppliedId>) = "slotthenbind",
        Num(u32),
        Sym(Symbol),
        Mixed(u32, Slot, AppliedId, Bind<Slot>) = "mixed",
        // shapes of the test languages (tests/*/mod.rs)
        Sum(Bind<AppliedId>) = "sum",
        Add(AppliedId, AppliedId) = "add",
        Fun(Bind<AppliedId>) = "fun",
        Fix(Bind<AppliedId>) = "fix",
        Sing(AppliedId, AppliedId) = "sing",
        Range(AppliedId, AppliedId) = "range",
    }
}
