"""Regenerates MANIFEST.json from contracts/props.json (claimed properties) and contracts/not_applicable.json."""
import json, os
V = os.path.dirname(os.path.dirname(os.path.abspath(__file__)))
props = json.load(open(os.path.join(V, "contracts", "props.json")))
na = json.load(open(os.path.join(V, "contracts", "not_applicable.json")))
checks = []
for pid in sorted(props):
    P = props[pid]
    checks.append(dict(
        property_id=pid,
        quick_cmd="./check %s quick" % pid,
        thorough_cmd="./check %s thorough" % pid,
        evidence_file="evidence/%s.json" % pid,
        replay_cmd_template="./check %s --replay {path}" % pid,
        engine="verus-extract",
        level_claimed=dict(category="proof", text=P["claim"], design_ref=P.get("design_ref", "DESIGN.md section 5")),
        level_note=P["level_note"],
        technique="contract-based deductive verification: Verus (Z3) discharges requires/ensures/invariants spliced onto the functions extracted mechanically from /repo on every run",
    ))
m = dict(
    version=1,
    setup_cmd="sh -c 'verus --version >/dev/null && python3 -c \"import json\" && cargo --version >/dev/null'",
    hooks=dict(guard="slotted_egraphs_verif", enable="none needed: the extractor reads /repo/src directly; no source hook exists (guard name reserved)",
               baseline_off_cmd="cd /repo && cargo test --workspace --no-fail-fast --offline", source_commits=[], add_only=True),
    engines=[dict(name="verus-extract", path="vx/", serves_properties=sorted(props), kind_free_text="mechanical extraction of real functions + contract splicing + Verus 0.2026.09.13 (Z3); vacuity probes; sabotage self-test (thorough)")],
    checks=checks,
    notes="Genuine defects repaired in /repo (unguarded 'fix:' commits, details in KNOWN_FINDINGS.txt and DESIGN.md section 6): " + ", ".join(sorted(set(l.split()[2] for l in open(os.path.join(V, "KNOWN_FINDINGS.txt")) if l.startswith("fixed:")))) + ". Recorded and not repaired (reported as KNOWN-FINDING, exit 0; DESIGN.md section 6): " + ("; ".join(l.split(" site=")[0].replace("finding: ", "") + " site=" + l.split(" site=")[1].split()[0] + " (" + l.split(" site=")[1].split()[1] + ")" for l in open(os.path.join(V, "KNOWN_FINDINGS.txt")) if l.startswith("finding:")) or "none") + ". Always-on bounded stand-ins (contracts/bounded/U*.rs) run the real code of functions outside Verus's subset; they are labelled bounded in every evidence file (coverage.bounded_checks / bounded_standins) and never counted as obligations. Unbounded proofs are per-function contracts on code extracted from /repo at run time (rules X1-X12, DESIGN.md 2.2). exit 2 = undecided (lost anchor, front-end error, resource limit), never a VIOLATION.",
    not_applicable=[dict(property_id=k, reason=v) for k, v in sorted(na.items()) if k not in props],
)
json.dump(m, open(os.path.join(V, "MANIFEST.json"), "w"), indent=1)
print("MANIFEST.json: %d checks, %d not applicable" % (len(checks), len(m["not_applicable"])))
