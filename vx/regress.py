"""Regression run over the stored seeded changes: every seeded/<id>/patch.diff is applied to a scratch copy of the current
/repo tree (never to /repo itself) and the property's quick check is run against that copy (VERIF_REPO=<copy>).

usage: python3 -B vx/regress.py [-j N] [seed-id ...]      (cwd: /verif or a snapshot of it; writes seeded/REGRESSION_<date>.txt)

Meant to be started with `vp run -- python3 -B vx/regress.py -j 6`, so that the evidence files of the working /verif are not
touched (each check rewrites evidence/<id>.json).  One line per seed: id, property, exit code, obligations reported."""
import concurrent.futures as cf, datetime, json, os, re, shutil, subprocess, sys, tempfile

V = os.path.dirname(os.path.dirname(os.path.abspath(__file__)))
REPO = os.environ.get("VERIF_REPO", "/repo")


def one(seed):
    d = os.path.join(V, "seeded", seed)
    meta = json.load(open(os.path.join(d, "meta.json")))
    prop = meta["property"]
    root = tempfile.mkdtemp(prefix="slotted-regress.%s." % seed, dir=os.environ.get("VERIF_SCRATCH", "/var/tmp"))
    try:
        tree = os.path.join(root, "tree")
        os.makedirs(tree)
        for name in ("src", "slotted-egraphs-derive", "tests", "benches", "Cargo.toml", "Cargo.lock", "README.md"):
            q = os.path.join(REPO, name)
            if os.path.isdir(q):
                shutil.copytree(q, os.path.join(tree, name))
            elif os.path.exists(q):
                shutil.copy(q, os.path.join(tree, name))
        # strict application (no fuzz): a patch whose context was rewritten by a later fix is reported as superseded, not applied approximately
        p = subprocess.run(["git", "apply", os.path.join(d, "patch.diff")], cwd=tree, stdout=subprocess.PIPE, stderr=subprocess.STDOUT, text=True)
        if p.returncode != 0:
            return seed, prop, "n/a", "patch no longer applies to the current tree (superseded by a later fix?)"
        # every run gets its own copy of the checker so that parallel runs of one property do not share an evidence file
        vcopy = os.path.join(root, "verif")
        shutil.copytree(V, vcopy, ignore=shutil.ignore_patterns(".git", "replays", "seeded", "probes", "demos"))
        env = dict(os.environ, VERIF_REPO=tree, VERIF_SCRATCH=root, CARGO_NET_OFFLINE="true")
        q = subprocess.run(["./check", prop, "quick"], cwd=vcopy, env=env, stdout=subprocess.PIPE, stderr=subprocess.STDOUT, text=True, timeout=3600)
        obs = re.findall(r"^VIOLATION .*?obligation=(\S+)", q.stdout, re.M)
        und = len(re.findall(r"^UNDECIDED", q.stdout, re.M))
        return seed, prop, q.returncode, ",".join(dict.fromkeys(obs)) + (" (+%d undecided)" % und if und else "")
    except subprocess.TimeoutExpired:
        return seed, prop, "timeout", ""
    finally:
        shutil.rmtree(root, ignore_errors=True)


def main(argv):
    j = 4
    if len(argv) > 2 and argv[1] == "-j":
        j = int(argv[2]); argv = argv[:1] + argv[3:]
    seeds = argv[1:] or sorted(s for s in os.listdir(os.path.join(V, "seeded")) if os.path.exists(os.path.join(V, "seeded", s, "patch.diff")) and os.path.exists(os.path.join(V, "seeded", s, "meta.json")))
    out = os.path.join(V, "seeded", "REGRESSION_%s.txt" % datetime.date.today().isoformat())
    res = []
    with cf.ThreadPoolExecutor(max_workers=j) as ex:
        for r in ex.map(one, seeds):
            line = "%s %s %s %s" % r
            print(line, flush=True)
            res.append(line)
    open(out + ".new", "w").write("\n".join(res) + "\n")
    n1 = sum(1 for l in res if l.split()[2] == "1")
    print("SUMMARY: %d seeds, %d x exit 1 (VIOLATION), %d x exit 0, %d x exit 2, %d not applicable" % (len(res), n1, sum(1 for l in res if l.split()[2] == "0"), sum(1 for l in res if l.split()[2] == "2"), sum(1 for l in res if l.split()[2] == "n/a")))
    return 0


if __name__ == "__main__":
    sys.exit(main(sys.argv))
