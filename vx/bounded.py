"""Bounded native stand-in (DESIGN.md 2.6): runs contracts/bounded/<unit>.rs against a scratch copy of the
real crate.  Used (a) to look for a concrete failing input after Verus rejected an obligation and (b) as a
bounded stand-in for a function that an edit moved outside Verus's subset.  Never counted as proof."""
import os, shutil, subprocess, json, time

VERIF = os.path.dirname(os.path.dirname(os.path.abspath(__file__)))


def _alias(unit):
    """units without a harness of their own are judged by the harness of the unit that exercises the same functions
    (contracts/bounded/ALIASES.json, e.g. U18 -> U13: lookup_internal / add_internal)"""
    p = os.path.join(VERIF, "contracts", "bounded", "ALIASES.json")
    if os.path.exists(p):
        return json.load(open(p)).get(unit, unit)
    return unit


def available(unit):
    return os.path.exists(os.path.join(VERIF, "contracts", "bounded", _alias(unit) + ".rs"))


def run(unit, functions, repo, scratch, timeout=1800, deep=False):
    """returns dict(ran=bool, failures=[{function, clause, input}], cmd, wall_s, note)"""
    t0 = time.time()
    unit = _alias(unit)
    src = os.path.join(VERIF, "contracts", "bounded", unit + ".rs")
    if not os.path.exists(src):
        return dict(ran=False, failures=[], note="no bounded harness for " + unit)
    root = os.path.join(scratch, "bounded_" + unit)
    shutil.rmtree(root, ignore_errors=True)
    copy = os.path.join(root, "crate")
    os.makedirs(copy)
    for name in ("src", "slotted-egraphs-derive", "Cargo.toml", "Cargo.lock"):
        p = os.path.join(repo, name)
        if os.path.isdir(p):
            shutil.copytree(p, os.path.join(copy, name))
        elif os.path.exists(p):
            shutil.copy(p, os.path.join(copy, name))
    # the harness becomes a module of the scratch copy (never of /repo); `//! host: src/x.rs` makes it a child
    # module of that file so that it can reach the file's private items
    with open(os.path.join(copy, "src", "verif_bounded.rs"), "w") as hf:
        # failures are printed the moment they are found (a later panic or hang must not lose them)
        hf.write(open(src).read().replace("fails.push(", "verif_push(&mut fails, "))
        hf.write("\n// appended by vx/bounded.py: the case being exercised, printed by the runner's panic hook\n"
                 "pub static VERIF_CASE: std::sync::Mutex<String> = std::sync::Mutex::new(String::new());\n"
                 "pub static VERIF_CASES: std::sync::atomic::AtomicUsize = std::sync::atomic::AtomicUsize::new(0);\n"
                 "#[allow(dead_code)]\npub fn verif_push<V: std::borrow::BorrowMut<Vec<String>>>(v: &mut V, s: String) { use std::io::Write; println!(\"{}\", s); let _ = std::io::stdout().flush(); v.borrow_mut().push(s); }\n"
                 "#[allow(dead_code)]\npub fn verif_scale(n: u64) -> u64 { n * std::env::var(\"VERIF_BOUNDED_SCALE\").ok().and_then(|x| x.parse::<u64>().ok()).unwrap_or(1) }\n"
                 "#[allow(dead_code)]\npub fn verif_case(s: String) { VERIF_CASES.fetch_add(1, std::sync::atomic::Ordering::Relaxed); if let Ok(mut g) = VERIF_CASE.lock() { *g = s; } }\n")
    host = None
    for line in open(src):
        if line.startswith("//! host:"):
            host = line.split(":", 1)[1].strip()
        if line.startswith("//! functions:") and not functions:
            # the whole harness, still one process per function (a panic or a hang is attributed to its function)
            functions = line.split(":", 1)[1].split()
    with open(os.path.join(copy, "src", "lib.rs"), "a") as f:
        f.write("\nextern crate self as slotted_egraphs;\n")
        if host is None or host == "src/lib.rs":
            f.write("#[doc(hidden)]\npub mod verif_bounded;\n")
        else:
            rel = os.path.relpath(os.path.join(copy, "src", "verif_bounded.rs"), os.path.dirname(os.path.join(copy, host)))
            with open(os.path.join(copy, host), "a") as h:
                h.write('\n#[path = "%s"]\npub mod verif_bounded;\n' % rel)
            parts = host[len("src/"):-len(".rs")].split("/")
            if parts[-1] == "mod":
                parts = parts[:-1]
            # re-export upwards through the (private) ancestor modules
            for depth in range(len(parts) - 1, 0, -1):
                anc = parts[:depth]
                cand = [os.path.join(copy, "src", *anc, "mod.rs"), os.path.join(copy, "src", *anc) + ".rs"]
                af = [c for c in cand if os.path.exists(c)][0]
                with open(af, "a") as h:
                    h.write("\n#[doc(hidden)]\npub use self::%s::verif_bounded;\n" % parts[depth])
            f.write("#[doc(hidden)]\npub use self::%s::verif_bounded;\n" % parts[0])
    # strip dev-dependencies and benches so that only the library is built
    ct = open(os.path.join(copy, "Cargo.toml")).read()
    import re
    ct = re.sub(r"\[dev-dependencies\].*?(?=\n\[)", "", ct, flags=re.S)
    ct = re.sub(r"\[\[bench\]\].*?(?=\n\[|\Z)", "", ct, flags=re.S)
    open(os.path.join(copy, "Cargo.toml"), "w").write(ct)
    runner = os.path.join(root, "runner")
    os.makedirs(os.path.join(runner, "src"))
    open(os.path.join(runner, "Cargo.toml"), "w").write(
        '[package]\nname = "verif-bounded-runner"\nversion = "0.0.0"\nedition = "2021"\n\n[dependencies]\nslotted-egraphs = { path = "../crate" }\n\n'
        '# the pinned build takes the derive crate from the registry; the patch makes an edit of <repo>/slotted-egraphs-derive visible\n'
        '[patch.crates-io]\nslotted-egraphs-derive = { path = "../crate/slotted-egraphs-derive" }\n\n[workspace]\n')
    open(os.path.join(runner, "src", "main.rs"), "w").write(
        'fn main() {\n    let only: Vec<String> = std::env::args().skip(1).collect();\n'
        '    std::panic::set_hook(Box::new(|info| { let c = slotted_egraphs::verif_bounded::VERIF_CASE.lock().map(|g| g.clone()).unwrap_or_default(); println!("PANICKED {} ||| case: {}", info.to_string().replace("\\n", " "), c); }));\n'
        '    // watchdog: a case that makes no progress for VERIF_HANG_S seconds is reported with the case being exercised\n'
        '    let limit: u64 = std::env::var("VERIF_HANG_S").ok().and_then(|x| x.parse().ok()).unwrap_or(120);\n'
        '    std::thread::spawn(move || { let mut last = usize::MAX; let mut since = std::time::Instant::now(); loop { std::thread::sleep(std::time::Duration::from_millis(500));\n'
        '        let c = slotted_egraphs::verif_bounded::VERIF_CASES.load(std::sync::atomic::Ordering::Relaxed);\n'
        '        if c != last { last = c; since = std::time::Instant::now(); } else if since.elapsed().as_secs() >= limit {\n'
        '            let case = slotted_egraphs::verif_bounded::VERIF_CASE.lock().map(|g| g.clone()).unwrap_or_default();\n'
        '            println!("HUNG no progress for {} s (a case normally takes milliseconds) ||| case: {}", limit, case); std::process::exit(3); } } });\n'
        '    let f = slotted_egraphs::verif_bounded::run(&only);\n    for x in &f { println!("{}", x); }\n'
        '    println!("BOUNDED-CASES {}", slotted_egraphs::verif_bounded::VERIF_CASES.load(std::sync::atomic::Ordering::Relaxed));\n    println!("BOUNDED-DONE {}", f.len());\n}\n')
    lock = os.path.join(repo, "Cargo.lock")
    if not os.path.exists(lock):
        lock = "/repo/Cargo.lock"
    if os.path.exists(lock):
        shutil.copy(lock, os.path.join(runner, "Cargo.lock"))
    env = dict(os.environ, CARGO_NET_OFFLINE="true", CARGO_TARGET_DIR=os.path.join(root, "target"), RUSTFLAGS="-Awarnings")
    # `//! also-with-features: checks` in the harness header: the whole harness runs a second time against the copy built
    # with these features of the crate (C08 quantifies over the build with the internal assertions compiled in)
    variants = [None]
    for line in open(src):
        if line.startswith("//! also-with-features:"):
            variants.append(line.split(":", 1)[1].strip())
    cmd = ["cargo", "build", "--offline", "--quiet"] + (["--release"] if deep else [])
    fails = []
    done = True
    note_parts = []
    cases = {}
    try:
      for feat in variants:
        vcmd = cmd + (["--features", ",".join("slotted-egraphs/" + x for x in feat.split(","))] if feat else [])
        p = subprocess.run(vcmd, cwd=runner, env=env, stdout=subprocess.PIPE, stderr=subprocess.PIPE, text=True, timeout=timeout)
        if p.returncode != 0 and "verif_api_only" in open(src).read():
            # An edit changed the signature of a (crate-private or parameter-specific) function that one section of the harness calls
            # directly.  The sections marked `#[cfg(not(verif_api_only))]` are compiled out and the rest - the part of the harness that
            # drives the code under test through the public API only - is built and run; the functions of the dropped sections stay undecided.
            first_err = p.stderr[-1500:]
            env = dict(env, RUSTFLAGS=env.get("RUSTFLAGS", "") + " --cfg verif_api_only")
            p = subprocess.run(vcmd, cwd=runner, env=env, stdout=subprocess.PIPE, stderr=subprocess.PIPE, text=True, timeout=timeout)
            if p.returncode == 0:
                note_parts.append("harness built in API-only mode (sections calling functions whose signature changed are compiled out): " + first_err[-300:])
        if p.returncode != 0:
            return dict(ran=False, failures=[], note="bounded harness does not build against this tree: " + p.stderr[-1500:], cmd=" ".join(vcmd), wall_s=round(time.time() - t0, 1))
        exe = os.path.join(root, "target", "release" if deep else "debug", "verif-bounded-runner")
        vnote = " [build with features %s]" % feat if feat else ""
        # one process per function, so that a panic inside one function's checks is attributed to it
        for fn in (list(functions) or [None]):
            renv = dict(os.environ)
            if deep:
                renv["VERIF_BOUNDED_DEEP"] = "1"
                renv.setdefault("VERIF_HANG_S", "600")
            q = subprocess.run([exe] + ([fn] if fn else []), cwd=runner, env=renv, stdout=subprocess.PIPE, stderr=subprocess.PIPE, text=True, timeout=timeout)
            fdone = False
            seen_lines = set()
            for line in q.stdout.split("\n"):
                if line.startswith("FAIL ") and line not in seen_lines:
                    seen_lines.add(line)
                    _, f2, clause, rest = line.split(" ", 3)
                    fails.append(dict(function=f2, clause=clause, input=rest + vnote))
                if line.startswith("BOUNDED-CASES"):
                    key = (fn or "*") + (" [features %s]" % feat if feat else "")
                    cases[key] = int(line.split()[1])
                if line.startswith("BOUNDED-DONE"):
                    fdone = True
            if not fdone:
                pl = [l for l in q.stdout.split("\n") if l.startswith("PANICKED ")]
                hl = [l for l in q.stdout.split("\n") if l.startswith("HUNG ")]
                if hl and fn:
                    fails.append(dict(function=fn, clause="C08:%s.terminates" % fn.split("::")[-1], input=hl[-1][len("HUNG "):][:600] + vnote))
                elif pl and fn:
                    fails.append(dict(function=fn, clause="C08:%s.no-panic" % fn.split("::")[-1], input=pl[-1][len("PANICKED "):][:600] + vnote))
                elif fn and q.returncode is not None and q.returncode < 0:
                    # killed by a signal (stack overflow, abort): the code under test crashed the process; failures printed
                    # before the crash have been collected above
                    fails.append(dict(function=fn, clause="C08:%s.no-crash" % fn.split("::")[-1], input="the harness process was killed by signal %d (%s)%s" % (-q.returncode, " ".join(q.stderr.split())[-300:], vnote)))
                else:
                    done = False
                    note_parts.append("harness aborted for %s (rc=%s)%s: %s" % (fn, q.returncode, vnote, (q.stdout + q.stderr)[-800:]))
    except subprocess.TimeoutExpired:
        return dict(ran=False, failures=[], note="bounded harness timed out", cmd=" ".join(cmd), wall_s=time.time() - t0)
    finally:
        shutil.rmtree(os.path.join(root, "target"), ignore_errors=True)
    note = "; ".join(note_parts)
    return dict(ran=done, failures=fails, note=note, cases_run=cases, cmd="(cd <scratch copy of /repo + contracts/bounded/%s.rs as crate::verif_bounded>/runner && cargo run --offline -- %s)" % (unit, " ".join(functions)), wall_s=round(time.time() - t0, 1))


if __name__ == "__main__":
    import sys, tempfile
    sc = tempfile.mkdtemp(prefix="slotted-verif.bounded.", dir=os.environ.get("VERIF_SCRATCH", "/var/tmp"))
    try:
        r = run(sys.argv[1], sys.argv[2:], os.environ.get("VERIF_REPO", "/repo"), sc)
        print(json.dumps(r, indent=1))
    finally:
        shutil.rmtree(sc, ignore_errors=True)
