"""Driver: ./check <property> quick|thorough [--replay path]   (DESIGN.md section 2)

exit 0  every obligation of the property's units was discharged by Verus on /repo's current tree
exit 1  an obligation that is in the committed baseline was rejected at SMT level  → VIOLATION line
exit 2  undecided: lost anchor, front-end error, resource limit, vacuity guard tripped, tool failure
"""
import sys, os, json, re, time, shutil, subprocess, tempfile, hashlib, concurrent.futures as cf

HERE = os.path.dirname(os.path.abspath(__file__))
VERIF = os.path.dirname(HERE)
sys.path.insert(0, VERIF)
from vx.emit import Emitter, line_tables, TAG_RE, TemplateError  # noqa
from vx.rustscan import LostAnchor  # noqa

REPO = os.environ.get("VERIF_REPO", "/repo")
CONTRACTS = os.path.join(VERIF, "contracts")
SMT_FAIL = re.compile(r"^error: (postcondition not satisfied|precondition not satisfied|precondition not met|assertion failed|invariant not satisfied"
                      r"|loop invariant not satisfied|possible arithmetic (under|over)flow|possible division by zero|index out of bounds"
                      r"|decreases not satisfied|could not prove termination|recursive function call|possible bit shift"
                      r"|unreachable|constructed value may fail|call to .* may panic|cannot show invariant|possible)", re.I)
RLIMIT_FAIL = re.compile(r"Resource limit \(rlimit\) exceeded|rlimit exceeded|exceeded resource limit", re.I)


class Undecided(Exception):
    pass


def load_props():
    return json.load(open(os.path.join(CONTRACTS, "props.json")))


def run_verus(path, cwd, rlimit, extra=()):
    cmd = ["verus", os.path.basename(path), "--output-json", "--time", "--triggers-mode", "silent",
           "--multiple-errors", "4", "--rlimit", str(rlimit),
           # after a failed query Verus re-runs it with recommends-checking to improve the diagnostics; that re-run is not
           # under the resource limit and was seen to run for > 30 min on a broken build_ot: switched off
           "--no-auto-recommends-check"] + list(extra)
    t0 = time.time()
    p = subprocess.run(cmd, cwd=cwd, stdout=subprocess.PIPE, stderr=subprocess.PIPE, text=True, timeout=1500)
    wall = time.time() - t0
    js = None
    try:
        js = json.loads(p.stdout)
    except Exception:
        # verus prints json possibly after other text
        i = p.stdout.find("{")
        if i >= 0:
            try:
                js = json.loads(p.stdout[i:])
            except Exception:
                js = None
    return dict(cmd=" ".join(cmd), rc=p.returncode, json=js, stderr=p.stderr, wall=wall)


def split_errors(stderr):
    blocks, cur = [], None
    for line in stderr.split("\n"):
        if line.startswith("error") or line.startswith("warning") or line.startswith("note:"):
            if cur:
                blocks.append(cur)
            cur = [line]
        elif cur is not None:
            cur.append(line)
    if cur:
        blocks.append(cur)
    return ["\n".join(b) for b in blocks if b[0].startswith("error")]


def lines_of(block):
    ls = set()
    for m in re.finditer(r"-->\s*[^:\n]+:(\d+):\d+", block):
        ls.add(int(m.group(1)))
    for m in re.finditer(r"^\s*(\d+)\s*\|", block, re.M):
        ls.add(int(m.group(1)))
    return ls


def fn_results(js):
    """{short fn name: (success, ms, rlimit, mode)} from verus json"""
    out = {}
    if not js:
        return out
    try:
        mods = js["times-ms"]["smt"]["smt-run-module-times"]
    except Exception:
        return out
    for mod in mods:
        for f in mod.get("function-breakdown", []):
            name = f["function"].split("::", 1)[1] if "::" in f["function"] else f["function"]
            prev = out.get(name)
            ok = f["success"] and (prev[0] if prev else True)
            out[name] = (ok, f.get("time-micros", 0) / 1000.0 + (prev[1] if prev else 0), f.get("rlimit", 0), f.get("mode:", ""))
    return out


class UnitRun:
    """One emission + verification of a unit (a given CHECKS value / probe / sabotage)."""

    def __init__(self, unit, scratch, checks=False, probe=None, sabotage=None, rlimit=30, label=None):
        self.unit, self.checks, self.probe, self.sabotage = unit, checks, probe, sabotage
        self.label = label or ("%s.checks_%s%s" % (unit, "on" if checks else "off", (".probe_" + probe) if probe else ""))
        self.scratch = scratch
        self.rlimit = rlimit

    def go(self, force_assumed=None):
        """emit + verify; a function whose anchors are lost or which leaves Verus's subset (front-end error inside
        its span) is re-emitted as an assumed declaration and recorded in self.undecidable (DESIGN 2.4)"""
        self.undecidable = dict(force_assumed or {})
        self.nocontract = {}
        for attempt in range(12):
            try:
                em = Emitter(REPO, os.path.join(CONTRACTS, self.unit + ".vt"), checks_value=self.checks, probe=self.probe,
                             sabotage=self.sabotage, force_assumed=self.undecidable, force_nocontract=self.nocontract)
                self.em = em
                text = em.emit()
            except LostAnchor as e:
                q = getattr(e, "qual", None)
                if q is None or q in self.undecidable:
                    raise
                self.undecidable[q] = "lost anchor: %s" % e
                continue
            self.text = text
            d = os.path.join(self.scratch, self.label)
            os.makedirs(d, exist_ok=True)
            self.path = os.path.join(d, self.unit + ".rs")
            open(self.path, "w").write(text)
            self.spans, self.taglines = line_tables(text)
            self.res = run_verus(self.path, d, self.rlimit)
            self.fn = fn_results(self.res["json"])
            self.errors = split_errors(self.res["stderr"])
            cl = self.classify()
            if cl["front_end"] and not self.sabotage:
                # attribute front-end errors to functions under contract
                culprits = set()
                for b in cl["front_end"]:
                    fns = set(filter(None, (self.span_of_line(l) for l in lines_of(b))))
                    fns = {f for f in fns if any(m["qual"] == f and (not m["assumed"] or (f in self.undecidable and f not in self.nocontract)) for m in em.functions)}
                    if not fns:
                        culprits = None
                        break
                    # the innermost/primary location decides
                    prim = re.search(r"-->\s*[^:\n]+:(\d+):", b)
                    pf = self.span_of_line(int(prim.group(1))) if prim else None
                    culprits.add(pf if pf in fns else sorted(fns)[0])
                if culprits:
                    new = False
                    for c in culprits:
                        if c in self.undecidable and c not in self.nocontract:
                            # already an assumed declaration and the error is still inside its span: the CONTRACT does not type-check
                            # (an edit changed the parameter list).  Drop the contract, and make every function of the unit that
                            # mentions it undecidable as well (it would otherwise be verified against a callee without contract and
                            # fail for no semantic reason - a false alarm).
                            self.nocontract[c] = self.undecidable[c]
                            short = c.split("::")[-1]
                            for m in em.functions:
                                if m["qual"] != c and not m["assumed"] and re.search(r"\b%s\b" % re.escape(short), m.get("orig_body") or ""):
                                    self.undecidable.setdefault(m["qual"], "calls %s, whose parameter list changed (its contract no longer type-checks)" % c)
                            new = True
                        if c not in self.undecidable:
                            first = next((l for b in cl["front_end"] for l in b.split("\n") if l.startswith("error")), cl["front_end"][0].split("\n", 1)[0])
                            self.undecidable[c] = "outside Verus's subset after an edit (front-end error: %s)" % first[:160]
                            new = True
                    if new:
                        continue
            return self
        return self

    # classification -------------------------------------------------------------------------
    def span_of_line(self, ln):
        for q, a, b in self.spans:
            if a <= ln <= b:
                return q
        return None

    def classify(self):
        """returns dict(front_end=[...], rlimit=[...], failures=[{fn, tags, kind, text}], lemma_fail=[...])"""
        out = dict(front_end=[], rlimit=[], failures=[], other=[])
        js = self.res["json"]
        if js is None or "times-ms" not in js or not self.fn:
            out["front_end"].append(self.res["stderr"][-4000:] or "verus produced no result (rc=%s)" % self.res["rc"])
            return out
        for b in self.errors:
            first = b.split("\n", 1)[0]
            if first.startswith("error: aborting"):
                continue
            ls = lines_of(b)
            fns = set(filter(None, (self.span_of_line(l) for l in ls)))
            tags = []
            for l in sorted(ls):
                for t in self.taglines.get(l, []):
                    if t not in tags:
                        tags.append(t)
            if RLIMIT_FAIL.search(b):
                out["rlimit"].append(dict(fns=sorted(fns), text=b))
            elif SMT_FAIL.match(first):
                out["failures"].append(dict(fns=sorted(fns), tags=tags, kind=first[len("error: "):], text=b, lines=sorted(ls)))
            else:
                out["front_end"].append(b)
        return out


# ---------------------------------------------------------------------------------------------


def known_findings():
    p = os.path.join(VERIF, "KNOWN_FINDINGS.txt")
    res = []
    if os.path.exists(p):
        for line in open(p):
            line = line.strip()
            if line.startswith("finding:"):
                kv = dict(re.findall(r"(\w+)=(\S+)", line))
                kv["_line"] = line
                res.append(kv)
    return res


def baseline():
    p = os.path.join(CONTRACTS, "BASELINE_OBLIGATIONS.txt")
    res = {}
    if os.path.exists(p):
        for line in open(p):
            line = line.strip()
            if not line or line.startswith("#"):
                continue
            u, variant, name = line.split(None, 2)
            res.setdefault((u, variant), set()).add(name)
    return res


def check_property(pid, tier, scratch, write_baseline=False):
    t0 = time.time()
    props = load_props()
    if pid not in props:
        print("unknown or unclaimed property " + pid)
        return 2
    P = props[pid]
    owners = set([pid] + P.get("tag_aliases", []))   # clauses of these properties count as obligations of this one

    def owns(tag):
        return bool(owners & set(tag.split(":")[0].split(",")))
    units = P["units"]
    rl = P.get("rlimit", 30)
    runs = []
    for u in units:
        variants = P.get("checks_variants", {}).get(u, [False, True])
        for cv in variants:
            runs.append(UnitRun(u, scratch, checks=cv, rlimit=rl))
            runs.append(UnitRun(u, scratch, checks=cv, probe="exit", rlimit=3))   # a reachable `assert(false)` needs no search budget
    undecided = []
    with cf.ThreadPoolExecutor(max_workers=8) as ex:
        futs = {ex.submit(r.go): r for r in runs}
        for f in cf.as_completed(futs):
            r = futs[f]
            try:
                f.result()
            except LostAnchor as e:
                undecided.append("%s: lost anchor: %s" % (r.label, e))
            except TemplateError as e:
                undecided.append("%s: template error: %s" % (r.label, e))
            except subprocess.TimeoutExpired:
                undecided.append("%s: verus timed out" % r.label)
    base = baseline()
    kf = known_findings()
    violations = []       # dict(obligation, fn, unit, variant, text, tags)
    undecidable_fns = {}  # (unit, qual) -> (reason, fn meta)
    foreign = []          # functions verified as dependencies only (clauses owned by other properties)
    heavy = []            # queries that use a large share of the solver budget (fragility watch-list)
    bounded_runs = []
    known_hits = []
    obligations = 0
    discharged = 0
    fn_meta = []
    assumed = []
    solver_ms = 0.0
    samples = []
    probes_expected = probes_rejected = 0
    named_clauses = 0
    new_baseline = []
    cmds = []
    scan_hits = []
    if not undecided:
        for r in runs:
            cl = r.classify()
            variant = "checks_on" if r.checks else "checks_off"
            cmds.append(r.res["cmd"])
            contract_fns = [f for f in r.em.functions if not f["assumed"]]
            if r.probe:
                if cl["front_end"]:
                    undecided.append("%s: front-end error in probe emission:\n%s" % (r.label, cl["front_end"][0][:1500]))
                    continue
                for f in contract_fns:
                    if f["probe"] == "none":
                        continue
                    probes_expected += 1
                    fr = r.fn.get(f["vname"])
                    if fr is None:
                        undecided.append("%s: probe: function %s not reported by verus" % (r.label, f["qual"]))
                    elif fr[0]:
                        undecided.append("%s: VACUITY: `assert(false)` at the exit of %s was accepted (contradictory precondition/invariant or unreachable exit)" % (r.label, f["qual"]))
                    else:
                        probes_rejected += 1
                continue
            if cl["front_end"]:
                undecided.append("%s: front-end / unsupported-construct error (not an SMT rejection):\n%s" % (r.label, cl["front_end"][0][:3000]))
                continue
            if cl["rlimit"]:
                undecided.append("%s: resource limit exceeded in %s" % (r.label, cl["rlimit"][0]["fns"]))
                continue
            # mechanical scan for assumptions
            for i, line in enumerate(r.text.split("\n"), 1):
                if re.search(r"\bassume\s*\(|\badmit\s*\(|external_body|assume_specification|external_fn_specification|external_type_specification|verifier::external\b|axiom", line) and not line.strip().startswith("//"):
                    scan_hits.append((r.label, i, line.strip()[:160]))
            for name, (ok, ms, rlim, mode) in sorted(r.fn.items()):
                solver_ms += ms
                if rlim > 8000000:
                    heavy.append(dict(unit=r.unit, function=name, rlimit_units=rlim, ms=round(ms)))
            for f in r.em.functions:
                if f.get("undecidable"):
                    undecidable_fns.setdefault((r.unit, f["qual"]), (f["undecidable"], f))
            # obligations: every function verus checked (exec fns under contract + lemmas)
            quals = {f["vname"]: f for f in contract_fns}
            for name, (ok, ms, rlim, mode) in sorted(r.fn.items()):
                if mode == "spec" and name not in quals:
                    continue
                if name.endswith("::clone") and name not in quals:
                    continue
                new_baseline.append("%s %s %s" % (r.unit, variant, name))
                fq = quals.get(name)
                if fq is not None and fq["tags"] and not any(owns(t) for t in fq["tags"]):
                    # a function under contract whose clauses all belong to other properties: verified here only as a
                    # dependency; its failure is reported by the check of the property that owns it
                    foreign.append((r.unit, name, ok))
                    continue
                obligations += 1
                if ok:
                    discharged += 1
                else:
                    in_base = name in base.get((r.unit, variant), set())
                    f = quals.get(name)
                    qn = f["qual"] if f else name
                    errs = [e for e in cl["failures"] if qn in e["fns"]] or cl["failures"]
                    if f is None:
                        undecided.append("%s: lemma/aux function %s failed (does not depend on /repo source): machinery problem\n%s" % (r.label, name, (errs[0]["text"] if errs else "")[:2000]))
                        continue
                    if not in_base and not write_baseline:
                        undecided.append("%s: %s failed but is not in the committed baseline" % (r.label, name))
                        continue
                    ftags = f["tags"]
                    mine = [t for t in ftags if owns(t)]
                    if not mine:
                        # no clause of its own (e.g. a trait-impl method checked against the trait's contract)
                        mine = ["%s:%s.contract" % (pid, re.sub(r"[^A-Za-z0-9_.]+", "_", qn))]
                    for e in (errs or [dict(tags=[], kind="rejected", text="(no diagnostic captured)")]):
                        etags = [t for t in e["tags"] if owns(t)]
                        ob = etags[0] if etags else "%s~%s" % (mine[0], re.sub(r"[^a-z]+", "-", e["kind"].lower())[:40])
                        violations.append(dict(obligation=ob, fn=qn, unit=r.unit, variant=variant, text=e["text"], kind=e["kind"],
                                               file=f["file"], path=f["path"], body=f["orig_body"], diff=f["diff"]))
            if r.checks is False or len(P.get("checks_variants", {}).get(r.unit, [False, True])) == 1:
                for f in r.em.functions:
                    meta = dict(unit=r.unit, function=f["qual"], source=f["file"] + " :: " + f["path"], rules=f["rules"], sha256=f["sha256"], clauses=f["tags"])
                    if f["assumed"]:
                        meta["status"] = "assumed" + (" (proved in %s)" % f["proved_in"] if f.get("proved_in") else "")
                        assumed.append(meta)
                    else:
                        t = r.fn.get(f["vname"])
                        meta["status"] = "verified" if (t and t[0]) else "rejected"
                        meta["solver_ms"] = round(t[1], 1) if t else None
                        fn_meta.append(meta)
                        named_clauses += len(f["tags"])
                        for tg in f["tags"][:2]:
                            if len(samples) < 12 and owns(tg):
                                samples.append(dict(obligation=tg, function=f["qual"], unit=r.unit))

    # bounded native stand-in (never counted as proof): failing-input search for rejected obligations, and the
    # only judge for functions that became undecidable for Verus on this tree
    from vx import bounded
    need = {}

    def halias(unit, fn):
        # a function under contract that is private to the crate is exercised by the harness through the public
        # function that calls it (e.g. build_ot through Group::new): failing inputs are looked for there
        return P.get("harness_alias", {}).get(unit, {}).get(fn, fn)
    for v in violations:
        need.setdefault(v["unit"], set()).add(halias(v["unit"], v["fn"]))
    for (u, q), (reason, f) in undecidable_fns.items():
        if any(owns(t) for t in f["tags"]) or not f["tags"]:
            need.setdefault(u, set()).add(halias(u, q))
    bfail = {}
    # functions that are anchored in the property but outside Verus's reach: a bounded check of each stands in on
    # every run (labelled bounded, never counted as proved)
    always = {u: set(fns) for u, fns in P.get("bounded_always", {}).items()}
    deep = (tier == "thorough")
    if deep:
        # thorough tier: every harness of the property's units runs completely (all functions), with the larger bounds
        from vx import bounded as _b
        for u in units:
            if _b.available(u):
                always.setdefault(u, set()).add("*")
    for u, fns in always.items():
        need.setdefault(u, set()).update(fns)
    if not write_baseline:
        for u, fns in sorted(need.items()):
            if not bounded.available(u):
                bounded_runs.append(dict(unit=u, functions=sorted(fns), ran=False, note="no bounded harness for this unit"))
                continue
            fl_list = [] if "*" in fns else sorted(fns)
            br = bounded.run(u, fl_list, REPO, scratch, deep=deep)
            bounded_runs.append(dict(unit=u, functions=sorted(fns), deep=deep, ran=br["ran"], failures=br["failures"][:10], note=br.get("note", ""), cases_run=br.get("cases_run", {}), cmd=br.get("cmd"), wall_s=br.get("wall_s"),
                                     bound="see the header of contracts/bounded/%s.rs" % u))
            if br["ran"]:
                for fl in br["failures"]:
                    # a failing input that KNOWN_FINDINGS.txt lists (same clause, same site) is reported as KNOWN-FINDING by every check
                    # whose harness runs into it - whatever property this check is about - and is not a violation
                    kh = next((k for k in kf if k.get("site") == fl["function"] and (k.get("obligation") or "").replace("~bounded", "") == fl["clause"]), None)
                    if kh is not None:
                        if not any(h is kh for h, _ in known_hits):
                            known_hits.append((kh, dict(obligation=fl["clause"] + "~bounded", fn=fl["function"], unit=u, failing_input=dict(found=True, input=fl["input"], clause=fl["clause"]))))
                        continue
                    bfail.setdefault((u, fl["function"]), []).append(fl)
            else:
                for q in fns:
                    bfail.setdefault((u, q), None)
    for u, fns in sorted(always.items()):
        qs = set(fns)
        qs.discard("*")
        # every failing input the unit's harness reported counts, also when the harness files it under a more specific
        # function name than the one it was asked for (e.g. "weak_shape" -> "Bind::weak_shape_impl")
        qs |= {fn for (uu, fn) in bfail if uu == u and bfail[(uu, fn)]}
        for q in sorted(qs):
            fl = bfail.get((u, q))
            if fl:
                ob = fl[0]["clause"] if owns(fl[0]["clause"]) else "%s:%s" % (pid, q)
                violations.append(dict(obligation=ob + "~bounded", fn=q, unit=u, variant="native", text="bounded stand-in for %s (outside the contracts): failing input on the real code: %s [%s]" % (q, fl[0]["input"], fl[0]["clause"]),
                                       kind="bounded stand-in: failing input", file="(see contracts/bounded/%s.rs)" % u, path=q, body="", diff="",
                                       failing_input=dict(found=True, engine="bounded native harness on the real code (contracts/bounded/%s.rs)" % u, input=fl[0]["input"], clause=fl[0]["clause"], more=[x["input"] for x in fl[1:3]])))
            elif (u, q) in bfail and fl is None:
                undecided.append("%s: bounded stand-in for %s did not run" % (u, q))
    for v in violations:
        if v.get("failing_input"):
            continue
        fl = bfail.get((v["unit"], halias(v["unit"], v["fn"])))
        v["failing_input"] = dict(found=True, engine="bounded native harness on the real code (contracts/bounded/%s.rs)" % v["unit"], input=fl[0]["input"], clause=fl[0]["clause"], more=[x["input"] for x in fl[1:3]]) if fl else dict(found=False, note="verus gives no counterexample; bounded native search found none" if bounded.available(v["unit"]) else "verus gives no counterexample; no bounded harness for this unit")
    for (u, q), (reason, f) in sorted(undecidable_fns.items()):
        mine = [t for t in f["tags"] if owns(t)]
        if not mine:
            if f["tags"]:
                continue
            mine = ["%s:%s.contract" % (pid, re.sub(r"[^A-Za-z0-9_.]+", "_", q))]
        fl = bfail.get((u, halias(u, q)))
        if fl:
            ob = fl[0]["clause"] if owns(fl[0]["clause"]) else mine[0]
            violations.append(dict(obligation=ob + "~bounded", fn=q, unit=u, variant="native", text="Verus could not decide this function on this tree (%s); the bounded stand-in found a failing input on the real code: %s [%s]" % (reason, fl[0]["input"], fl[0]["clause"]),
                                   kind="bounded stand-in: failing input", file=f["file"], path=f["path"], body=f["orig_body"], diff=f["diff"],
                                   failing_input=dict(found=True, engine="bounded native harness on the real code (contracts/bounded/%s.rs)" % u, input=fl[0]["input"], clause=fl[0]["clause"], more=[x["input"] for x in fl[1:3]])))
        else:
            undecided.append("%s: function %s cannot be decided by Verus on this tree (%s); bounded stand-in %s" % (u, q, reason, "found no failing input within its bound" if bounded.available(u) and fl is not None or (bounded.available(u) and (u, q) not in bfail) else "not available / did not run"))

    # known findings / dedupe
    seen = set()
    final_viol = []
    for v in violations:
        key = (v["obligation"], v["fn"])
        if key in seen:
            continue
        seen.add(key)
        hit = None
        for k in kf:
            if k.get("property") == pid and k.get("site") == v["fn"] and (k.get("obligation") in (v["obligation"], "*")):
                hit = k
        if hit:
            known_hits.append((hit, v))
        else:
            final_viol.append(v)

    if write_baseline:
        return new_baseline

    wall = time.time() - t0
    rc = 0
    os.makedirs(os.path.join(VERIF, "evidence"), exist_ok=True)
    for hit, v in known_hits:
        print("KNOWN-FINDING: property=%s %s" % (pid, hit["_line"]))
    for u, n, ok in sorted(set(foreign)):
        if not ok:
            print("NOTE: dependency function %s (unit %s) is rejected on this tree; its clauses belong to another property, whose check reports it" % (n, u))
    if discharged < obligations and not final_viol and not known_hits and not undecided:
        undecided.append("internal: %d of %d obligations were not discharged but no violation was attributed - refusing to report success" % (obligations - discharged, obligations))
    if undecided:
        rc = 2
        for u in undecided:
            print("UNDECIDED: " + u)
    if final_viol:
        rc = 1
        os.makedirs(os.path.join(VERIF, "replays", pid), exist_ok=True)
        for v in final_viol:
            fname = re.sub(r"[^A-Za-z0-9_.\-]", "_", v["obligation"]) + ".json"
            rp = os.path.join(VERIF, "replays", pid, fname)
            inp = v.get("failing_input") or dict(found=False)
            json.dump(dict(property=pid, obligation=v["obligation"], function=v["fn"], unit=v["unit"], variant=v["variant"],
                           source=v["file"] + " :: " + v["path"], kind=v["kind"], verifier_output=v["text"],
                           extracted_body=v["body"], rewrite_diff=v["diff"], failing_input=inp,
                           replay_cmd="./check %s --replay %s" % (pid, os.path.relpath(rp, VERIF))), open(rp, "w"), indent=1)
            tail = "" if (inp and inp.get("found")) else " no-failing-input-found"
            print("VIOLATION property=%s replay=%s obligation=%s function=%s%s" % (pid, os.path.relpath(rp, VERIF), v["obligation"], v["fn"], tail))
    ev = dict(
        property_id=pid, tier=tier, seed=int(os.environ.get("VERIF_SEED", "0") or 0), level="proof",
        coverage=dict(
            obligations=obligations, discharged=discharged,
            checker_cmd="; ".join(sorted(set(cmds)))[:2000] + "   (cwd: a scratch directory holding the unit file re-extracted from /repo on this run)",
            trusted_base=P.get("trusted_base", []),
            explanation=P.get("scope", ""),
            samples=samples or [dict(note="no clause tagged for this property was reached")],
            named_clauses=named_clauses,
            functions_under_contract=fn_meta,
            assumed_contracts=assumed,
            not_verified=P.get("not_verified", []),
            vacuity_probes=dict(expected_rejected=probes_expected, rejected=probes_rejected),
            assumption_scan=sorted(set("%s" % h[2] for h in scan_hits))[:200],
            solver_ms=round(solver_ms, 1),
            units=units,
            undecided=undecided,
            known_findings_reported=[h["_line"] for h, _ in known_hits],
            heavy_queries=heavy,
            dependency_functions_failed=sorted(set("%s:%s" % (u, n) for u, n, ok in foreign if not ok)),
            bounded_checks=bounded_runs,
            bounded_standins=P.get("bounded_always", {}),
        ),
        assumptions=P.get("assumptions", []),
        wall_s=round(wall, 2),
        violations=len(final_viol),
    )
    if tier == "thorough" and rc == 0:
        ev["coverage"]["sabotage"] = sabotage_selftest(P, scratch, rl)
        if ev["coverage"]["sabotage"]["applied"] != ev["coverage"]["sabotage"]["rejected"]:
            print("UNDECIDED: sabotage self-test: %d of %d deliberate breakages were rejected" % (ev["coverage"]["sabotage"]["rejected"], ev["coverage"]["sabotage"]["applied"]))
            for x in ev["coverage"]["sabotage"]["missed"]:
                print("   missed: " + x)
            rc = 2
        bm = bounded_mutants_selftest(P, scratch)
        if bm is not None:
            ev["coverage"]["bounded_mutants"] = bm
            if bm["applied"] != bm["killed"]:
                print("UNDECIDED: bounded stand-in self-test: %d of %d deliberate breakages of the real code were noticed" % (bm["killed"], bm["applied"]))
                for x in bm["missed"]:
                    print("   missed: " + x)
                rc = 2
        ev["wall_s"] = round(time.time() - t0, 2)
    json.dump(ev, open(os.path.join(VERIF, "evidence", pid + ".json"), "w"), indent=1)
    print("%s %s: %d/%d obligations discharged (%d named clauses, %d functions under contract, %d assumed), probes %d/%d rejected, solver %.1fs, wall %.1fs -> exit %d"
          % (pid, tier, discharged, obligations, named_clauses, len(fn_meta), len(assumed), probes_rejected, probes_expected, solver_ms / 1000, wall, rc))
    return rc


def sabotage_selftest(P, scratch, rl):
    """thorough tier: deliberate one-line breakages of the extracted text must be rejected (DESIGN 2.5.4)"""
    applied = rejected = 0
    missed = []
    jobs = []
    for u in P["units"]:
        p = os.path.join(CONTRACTS, u + ".sabotage")
        if not os.path.exists(p):
            continue
        for n, line in enumerate(open(p), 1):
            line = line.rstrip("\n")
            if not line.strip() or line.startswith("#"):
                continue
            fn, pat, rep = line.split("\t")
            jobs.append((u, n, fn, pat, rep))
    def one(j):
        u, n, fn, pat, rep = j
        r = UnitRun(u, scratch, checks=False, sabotage=(fn, pat, rep), rlimit=rl, label="%s.sab%d" % (u, n))
        try:
            r.go()
        except (LostAnchor, TemplateError) as e:
            r.lost = str(e)
        return j, r
    with cf.ThreadPoolExecutor(max_workers=8) as ex:
        for j, r in ex.map(one, jobs):
            u, n, fn, pat, rep = j
            if getattr(r, "lost", None):
                applied += 1
                missed.append("%s line %d: %s: breakage makes the unit undecidable (%s)" % (u, n, fn, r.lost))
                continue
            if r.em.sabotage_hits != 1:
                missed.append("%s line %d: pattern did not apply to %s" % (u, n, fn))
                applied += 1
                continue
            applied += 1
            vn = {f["qual"]: f["vname"] for f in r.em.functions}.get(fn, fn)
            fr = r.fn.get(vn)
            if fr is not None and not fr[0]:
                rejected += 1
            elif fr is None:
                missed.append("%s line %d: %s with /%s/ => %s: verus gave no result for the function (front-end error?)" % (u, n, fn, pat, rep))
            else:
                missed.append("%s line %d: %s with /%s/ => %s still verifies" % (u, n, fn, pat, rep))
    return dict(applied=applied, rejected=rejected, missed=missed)


def bounded_mutants_selftest(P, scratch):
    """thorough tier: the vacuity guard of the always-on bounded stand-ins.  contracts/bounded/<unit>.mutants lists
    deliberate one-line breakages of /repo's source (harness function, file, regex, replacement); each is applied to a
    scratch copy of the tree and the stand-in for that function must report a failing input (DESIGN 2.5.5)."""
    from vx import bounded
    jobs = []
    for u, fns in P.get("bounded_always", {}).items():
        mp = os.path.join(CONTRACTS, "bounded", u + ".mutants")
        if not os.path.exists(mp):
            continue
        for n, line in enumerate(open(mp), 1):
            line = line.rstrip("\n")
            if not line.strip() or line.startswith("#"):
                continue
            fn, rel, pat, rep = line.split("\t")
            rep = rep.replace("\\n", "\n")
            if fn in fns:
                jobs.append((u, n, fn, rel, pat, rep))
    if not jobs:
        return None
    def one(j):
        u, n, fn, rel, pat, rep = j
        root = os.path.join(scratch, "mutant_%s_%d" % (u, n))
        tree = os.path.join(root, "tree")
        os.makedirs(tree)
        for name in ("src", "slotted-egraphs-derive", "Cargo.toml", "Cargo.lock"):
            q = os.path.join(REPO, name)
            if os.path.isdir(q):
                shutil.copytree(q, os.path.join(tree, name))
            elif os.path.exists(q):
                shutil.copy(q, os.path.join(tree, name))
        fp = os.path.join(tree, rel)
        try:
            text = open(fp).read()
        except OSError:
            return j, "file %s not found" % rel
        new, k = re.subn(pat, lambda m: rep, text)
        if k != 1:
            shutil.rmtree(root, ignore_errors=True)
            return j, "pattern applies %d times in %s" % (k, rel)
        open(fp, "w").write(new)
        br = bounded.run(u, [fn], tree, root)
        shutil.rmtree(root, ignore_errors=True)
        if not br["ran"]:
            return j, "harness did not run on the mutant: " + br.get("note", "")[:200]
        # failures that the unchanged tree shows as well (KNOWN_FINDINGS.txt `finding:` lines) do not count as killing the mutant
        known = set((k.get("obligation") or "").replace("~bounded", "") for k in known_findings())
        real = [f for f in br["failures"] if f.get("clause") not in known]
        return j, (None if real else "harness finds nothing (beyond the recorded known findings)")
    applied = killed = 0
    missed = []
    with cf.ThreadPoolExecutor(max_workers=4) as ex:
        for j, why in ex.map(one, jobs):
            applied += 1
            if why is None:
                killed += 1
            else:
                missed.append("%s line %d (%s, %s): %s" % (j[0], j[1], j[2], j[3], why))
    return dict(applied=applied, killed=killed, missed=missed)


def replay(pid, path, scratch):
    """re-decides the one obligation named in a replay file on the current tree (exit 1 = still violated)"""
    rp = path if os.path.isabs(path) else os.path.join(VERIF, path)
    d = json.load(open(rp))
    rc = 0
    fi = d.get("failing_input") or {}
    if fi.get("found"):
        from vx import bounded
        hfn = load_props().get(pid, {}).get("harness_alias", {}).get(d["unit"], {}).get(d["function"], d["function"])
        br = bounded.run(d["unit"], [hfn], REPO, scratch)
        print("recorded failing input: %s   [%s]" % (fi.get("input"), fi.get("clause")))
        if br["ran"]:
            for fl in br["failures"][:5]:
                print("real code, current tree: FAIL %s %s %s" % (fl["function"], fl["clause"], fl["input"]))
            if br["failures"]:
                rc = 1
            else:
                print("real code, current tree: the bounded harness finds no failing input for %s" % hfn)
        else:
            print("bounded harness did not run: " + br.get("note", ""))
            rc = 2
    if d.get("variant") != "native":
        r = UnitRun(d["unit"], scratch, checks=(d["variant"] == "checks_on"), rlimit=load_props()[pid].get("rlimit", 30)).go()
        fr = r.fn.get({f["qual"]: f["vname"] for f in r.em.functions}.get(d["function"], d["function"]))
        und = r.undecidable.get(d["function"])
        print("verus on the current tree: obligation %s, function %s -> %s" % (d["obligation"], d["function"],
              ("undecidable: " + und) if und else ("no result" if fr is None else ("accepted" if fr[0] else "REJECTED"))))
        for b in r.errors[:4]:
            print(b)
        if fr is not None and not fr[0]:
            rc = 1
        elif fr is None and rc == 0:
            rc = 2
    return rc


def main(argv):
    if len(argv) < 3:
        print(__doc__)
        return 2
    pid = argv[1]
    base = os.environ.get("VERIF_SCRATCH", "/var/tmp")
    scratch = tempfile.mkdtemp(prefix="slotted-verif.%s." % pid, dir=base)
    try:
        if argv[2] == "--replay":
            return replay(pid, argv[3], scratch)
        if argv[2] == "--baseline":
            lines = []
            for p in sorted(load_props().keys()) if pid == "all" else [pid]:
                lines += check_property(p, "quick", scratch, write_baseline=True)
            sys.stdout.write("\n".join(sorted(set(lines))) + "\n")
            return 0
        tier = argv[2]
        if tier not in ("quick", "thorough"):
            tier = os.environ.get("VERIF_TIER", "quick")
        return check_property(pid, tier, scratch)
    finally:
        if not os.environ.get("VERIF_KEEP"):
            shutil.rmtree(scratch, ignore_errors=True)
        else:
            print("scratch kept: " + scratch)


if __name__ == "__main__":
    sys.exit(main(sys.argv))
