#!/bin/sh
# usage: seedcheck.sh <seed-id> <worktree> <property> <demo-test-name>
# Confirms a seeded change in its scratch worktree (suite still passes, demo fails with / passes without),
# stores it under /verif/seeded/<seed-id>/ and runs the property's quick check against /repo with the change applied.
set -u
ID=$1; WT=$2; PROP=$3; DEMO=$4
OUT=/verif/seeded/$ID; mkdir -p $OUT
cd $WT || exit 2
git diff -- src slotted-egraphs-derive > $OUT/patch.diff
cp tests/$DEMO.rs $OUT/ 2>/dev/null || cp examples/$DEMO.rs $OUT/
cp NOTES.md $OUT/agent_notes.md 2>/dev/null
echo "== suite with change"; cargo test --offline --no-fail-fast --test entry --lib 2>&1 | grep -E '^test result' | tee $OUT/suite_with_change.txt
echo "== demo with change (expected to fail)"; cargo test --offline --test $DEMO 2>&1 | grep -E '^test result|FAILED|panicked' | head -8 | tee $OUT/demo_with_change.txt
git apply -R $OUT/patch.diff || { echo "cannot revert"; exit 2; }
echo "== demo without change (expected to pass)"; cargo test --offline --test $DEMO 2>&1 | grep -E '^test result|FAILED' | head -5 | tee $OUT/demo_without_change.txt
git apply $OUT/patch.diff
echo "== check against /repo with the change"
cd /repo && git apply $OUT/patch.diff || { echo "patch does not apply to /repo"; exit 2; }
cp /verif/evidence/$PROP.json /var/tmp/evidence_$PROP.keep 2>/dev/null
cd /verif && ./check $PROP quick > $OUT/check_output.txt; echo "exit=$?" >> $OUT/check_output.txt; cat $OUT/check_output.txt
git -C /repo checkout -- . 
# the evidence file committed under /verif must describe the unchanged tree, not the seeded one
mv /var/tmp/evidence_$PROP.keep /verif/evidence/$PROP.json 2>/dev/null
git -C /repo status --short
