#!/bin/sh
# runs the thorough tier of every claimed property, three at a time; prints one line per property
run() { p=$1; out=$(./check $p thorough 2>&1); rc=$?; echo "$p rc=$rc $(echo "$out" | tail -1 | cut -c1-160)"; echo "$out" | grep -E "^(VIOLATION|UNDECIDED|KNOWN)" | cut -c1-400 | sed "s/^/   $p: /"; }
for grp in "C17 C19 C13" "C18 C15 C05" "C14 C16 C09" "C06 C10" "C01 C08"; do
  for p in $grp; do run $p & done; wait
done
echo ALL-DONE
