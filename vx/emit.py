"""Unit templates (contracts/<unit>.vt) → one Verus file built from /repo's current source.

Template = Verus text with directive blocks.  Everything outside directives is copied verbatim
(spec functions, lemmas, assumed declarations).  Directives pull *real* code out of /repo:

  //@item <file> :: <path>            copy a struct/enum/type item
  //@  derive+ Structural             (X12) append to the derive list
  //@  derive- Default Hash           drop derives Verus cannot process (listed in evidence)
  //@  sub /regex/ => replacement     (declared textual substitution; must match, else exit 2)
  //@end

  //@fn <file> :: <path> :: fn <name>  [| key=value ...]
  //@requires / //@ensures / //@decreases     clause lines follow (verbatim Verus)
  //@loop N [iter=name]                       invariant/decreases text for the N-th loop
  //@loop-start N / //@loop-end N             ghost text at start / end of the N-th loop body
  //@entry / //@exit                          ghost text at function entry / exit
  //@sub /regex/ => replacement [| count=N]   declared substitution on the body
  //@sigsub /regex/ => replacement            declared substitution on the parameter list / return type
  //@end

Options on the //@fn line: result=<name> (X6), assumed (X1: emitted external_body, contract assumed),
name=<newname> (emit under another name: used when a trait-impl method is emitted as an inherent one),
vis=<text>, probe=entry|exit|none.

Clause tags  [[C19:insert.view]]  are kept as comments and give the obligation its name.
"""
import re
import difflib
import hashlib
from . import rustscan as rs
from .rustscan import LostAnchor


class TemplateError(Exception):
    pass


TAG_RE = re.compile(r"\[\[([A-Z]\d+(?:,[A-Z]\d+)*):([A-Za-z0-9_.\-]+)\]\]")
DROP_ATTRS = re.compile(r"#\[\s*(track_caller|inline(\([^)]*\))?|doc\s*\(\s*hidden\s*\)|allow\s*\([^\]]*\)|must_use)\s*\]")


def parse_sub(line):
    # /regex/ => replacement [| count=N]
    m = re.match(r"\s*/(.*)/\s*=>\s?(.*)$", line)
    if not m:
        raise TemplateError("bad sub directive: " + line)
    pat, rest = m.group(1), m.group(2)
    count = None
    cm = re.search(r"\s\|\s*count=(\d+|\*)\s*$", rest)
    if cm:
        count = cm.group(1)
        rest = rest[:cm.start()]
    return (pat, rest, count)


class Directive:
    def __init__(self, kind, head, lineno):
        self.kind = kind
        self.lineno = lineno
        parts = [p.strip() for p in head.split("|")]
        path = [p.strip() for p in parts[0].split("::")]
        self.file = path[0]
        self.path = path[1:]
        self.opts = {}
        for p in parts[1:]:
            if "=" in p:
                k, v = p.split("=", 1)
                self.opts[k.strip()] = v.strip()
            elif p:
                self.opts[p] = True
        self.sections = {}   # name -> list of lines
        self.subs = []
        self.sigsubs = []
        self.derive_add = []
        self.derive_del = []
        self.ats = []

    def sec(self, name):
        return "\n".join(self.sections.get(name, []))


def parse_template(text):
    segs = []
    cur_text = []
    d = None
    cur_sec = None
    for ln, line in enumerate(text.split("\n"), 1):
        s = line.strip()
        if s.startswith("//@"):
            body = s[3:].strip()
            word, _, rest = body.partition(" ")
            if d is None:
                if word == "include":
                    if cur_text:
                        segs.append(("text", "\n".join(cur_text)))
                        cur_text = []
                    segs.append(("include", rest.split()))
                elif word in ("fn", "item", "expect-body", "expect-text", "gen-tree"):
                    if cur_text:
                        segs.append(("text", "\n".join(cur_text)))
                        cur_text = []
                    d = Directive(word, rest, ln)
                    cur_sec = None
                elif word in ("unit", "note", "assumed:", "trusted:"):
                    cur_text.append(line)
                else:
                    raise TemplateError("line %d: unexpected directive %s" % (ln, word))
            else:
                if word == "end":
                    segs.append((d.kind, d))
                    d = None
                elif word == "sub":
                    d.subs.append(parse_sub(rest))
                    cur_sec = None
                elif word == "sigsub":
                    d.sigsubs.append(parse_sub(rest))
                    cur_sec = None
                elif word == "derive+":
                    d.derive_add += rest.split()
                elif word == "derive-":
                    d.derive_del += rest.split()
                elif word in ("requires", "ensures", "decreases", "entry", "exit", "recommends", "body"):
                    cur_sec = word
                    d.sections.setdefault(cur_sec, [])
                    if rest:
                        d.sections[cur_sec].append(rest)
                elif word == "at":
                    # //@at /regex/ before|after
                    am = re.match(r"/(.*)/\s+(before|after)\s*$", rest)
                    if not am:
                        raise TemplateError("line %d: bad at directive" % ln)
                    cur_sec = "at:%d" % len(d.ats)
                    d.ats.append((am.group(1), am.group(2), cur_sec))
                    d.sections[cur_sec] = []
                elif word in ("loop", "loop-start", "loop-end"):
                    toks = rest.split()
                    n = int(toks[0])
                    cur_sec = "%s:%d" % (word, n)
                    d.sections.setdefault(cur_sec, [])
                    for t in toks[1:]:
                        if t.startswith("iter="):
                            d.opts["iter:%d" % n] = t[5:]
                else:
                    raise TemplateError("line %d: unknown directive %s" % (ln, word))
        else:
            if d is None:
                cur_text.append(line)
            else:
                if cur_sec is None:
                    if s:
                        raise TemplateError("line %d: text outside a section in directive" % ln)
                else:
                    d.sections[cur_sec].append(line)
    if d is not None:
        raise TemplateError("unterminated directive starting line %d" % d.lineno)
    if cur_text:
        segs.append(("text", "\n".join(cur_text)))
    return segs


# ---------------------------------------------------------------------------------------------
# rewrite rules


def strip_cfg(text, log):
    """X2: default feature set.  Removes elements under #[cfg(feature = "explanations")] (and "profiling"),
    keeps elements under #[cfg(not(feature = ...))] without the attribute."""
    while True:
        m = rs.mask(text)
        # masked strings are blanked; search on the unmasked text but confirm position is not in a comment
        mm = None
        for cand in re.finditer(r"#\[\s*cfg\s*\(\s*(not\s*\(\s*)?feature\s*=\s*\"(explanations|profiling|checks)\"\s*\)?\s*\)\s*\]", text):
            if m[cand.start()] == "#":
                mm = cand
                break
        if not mm:
            return text
        negated = mm.group(1) is not None
        feat = mm.group(2)
        if feat == "checks":
            raise LostAnchor("cfg(feature=checks) inside an extracted item is not handled")
        a, b = mm.start(), mm.end()
        if negated:
            log.append("X2 keep element under cfg(not(feature=%s))" % feat)
            text = text[:a] + text[b:]
            continue
        # find the end of the following element
        i = rs.skip_ws(m, b)
        # further attributes
        while m.startswith("#[", i):
            i = rs.match_close(m, m.index("[", i)) + 1
            i = rs.skip_ws(m, i)
        j = i
        n = len(m)
        end = None
        while j < n:
            c = m[j]
            if c in ";,":
                end = j + 1
                break
            if c in "([":
                j = rs.match_close(m, j) + 1
                continue
            if c == "{":
                j = rs.match_close(m, j) + 1
                k = rs.skip_ws(m, j)
                if k < n and m[k] in ";,":
                    end = k + 1
                    break
                if m.startswith("else", k):
                    j = k + 4
                    continue
                if k < n and m[k] in ".?":
                    j = k
                    continue
                end = j
                break
            if c in ")]}":
                end = j
                break
            j += 1
        if end is None:
            end = n
        log.append("X2 drop element under cfg(feature=%s): %s" % (feat, " ".join(text[i:end].split())[:80]))
        text = text[:a] + text[end:]


def ghost_macro(text, log):
    """X2: ghost!(e) → ()"""
    m = rs.mask(text)
    out = []
    i = 0
    for mm in re.finditer(r"\bghost!\s*\(", m):
        if mm.start() < i:
            continue
        c = rs.match_close(m, mm.end() - 1)
        out.append(text[i:mm.start()])
        out.append("()")
        log.append("X2 ghost!(..) -> ()")
        i = c + 1
    out.append(text[i:])
    return "".join(out)


TYPE_SUBS = [
    (re.compile(r"\bSmallVec\s*<\s*\[\s*(.+?)\s*;\s*\d+\s*\]\s*>"), r"Vec<\1>", "X4 SmallVec<[T; N]> -> Vec<T>"),
]


def drop_checks_blocks(text, log):
    """X3b (units verified for the default build only): `if CHECKS { .. }` statements are dead code there and are
    removed, because they call crate-internal checkers that are not part of the unit"""
    while True:
        m = rs.mask(text)
        mm = re.search(r"\bif\s+CHECKS\s*\{", m)
        if not mm:
            return text
        c = rs.match_close(m, mm.end() - 1)
        log.append("X3b dropped `if CHECKS {..}` block: " + " ".join(text[mm.end():c].split())[:80])
        text = text[:mm.start()] + text[c + 1:]


def type_subs(text, log):
    for rx, rep, what in TYPE_SUBS:
        text2, n = rx.subn(rep, text)
        if n:
            log.append("%s (x%d)" % (what, n))
        text = text2
    return text


def apply_subs(text, subs, log, what):
    for pat, rep, count in subs:
        rx = re.compile(pat, re.S)
        text2, n = rx.subn(rep.replace("\\n", "\n"), text)
        want = count
        if want == "*":
            pass
        elif want is None:
            if n != 1:
                raise LostAnchor("%s: substitution /%s/ matched %d times (expected 1)" % (what, pat, n))
        elif n != int(want):
            raise LostAnchor("%s: substitution /%s/ matched %d times (expected %s)" % (what, pat, n, want))
        log.append("sub /%s/ => %s (x%d)" % (pat, rep, n))
        text = text2
    return text


def clean_attrs(text, log):
    t2, n = DROP_ATTRS.subn("", text)
    if n:
        log.append("X6 dropped %d attribute(s)" % n)
    t3 = re.sub(r"pub\s*\(\s*(crate|super|in [^)]*)\s*\)", "pub", t2)
    if t3 != t2:
        log.append("X6 pub(..) -> pub")
    return t3


def strip_comments(text):
    m = rs.mask(text)
    return "".join(c if (m[i] == c or c == '"') else " " for i, c in enumerate(text))


def keep_tags(clause_text):
    """[[Cxx:name]] → /*[[Cxx:name]]*/ so that it survives as a comment."""
    return TAG_RE.sub(lambda m: "/*[[%s:%s]]*/" % (m.group(1), m.group(2)), clause_text)


_EXPAND_CACHE = {}
_EXPAND_LOCK = __import__("threading").Lock()


def expand_crate(name, repo, items_log):
    """macro expansion of /verif/<name> (a crate that invokes define_language!) against the derive crate in <repo>:
    cargo +nightly rustc -- -Zunpretty=expanded, in a scratch copy whose Cargo.toml points at <repo>"""
    import os, shutil, subprocess, tempfile, filecmp
    verif = os.path.dirname(os.path.dirname(os.path.abspath(__file__)))
    key = (name, repo)
    with _EXPAND_LOCK:
        if key in _EXPAND_CACHE:
            return _EXPAND_CACHE[key]
        base = os.environ.get("VERIF_SCRATCH", "/var/tmp")
        d = tempfile.mkdtemp(prefix="slotted-verif.expand.", dir=base)
        try:
            shutil.copytree(os.path.join(verif, name), os.path.join(d, "crate"))
            ct = open(os.path.join(d, "crate", "Cargo.toml")).read().replace('"/repo', '"' + repo)
            open(os.path.join(d, "crate", "Cargo.toml"), "w").write(ct)
            lock = os.path.join(repo, "Cargo.lock")
            if not os.path.exists(lock):
                lock = "/repo/Cargo.lock"
            if os.path.exists(lock):
                shutil.copy(lock, os.path.join(d, "crate", "Cargo.lock"))
            env = dict(os.environ, CARGO_NET_OFFLINE="true", CARGO_TARGET_DIR=os.path.join(d, "target"), RUSTFLAGS="-Awarnings")
            p = subprocess.run(["cargo", "+nightly", "rustc", "--offline", "--lib", "--", "-Zunpretty=expanded"], cwd=os.path.join(d, "crate"),
                               env=env, stdout=subprocess.PIPE, stderr=subprocess.PIPE, text=True, timeout=1800)
            if p.returncode != 0 or "fn weak_shape_inplace" not in p.stdout:
                raise LostAnchor("macro expansion of %s failed: %s" % (name, p.stderr[-1500:]))
            _EXPAND_CACHE[key] = p.stdout
            return p.stdout
        finally:
            shutil.rmtree(d, ignore_errors=True)


class Emitter:
    def __init__(self, repo, template_path, checks_value=False, probe=None, sabotage=None, force_assumed=None, force_nocontract=None):
        self.force_assumed = dict(force_assumed or {})
        # functions whose CONTRACT no longer type-checks against the tree (an edit changed the parameter list): emitted with the
        # new signature, external_body, no contract at all; every function of the unit that mentions them is made undecidable too
        self.force_nocontract = dict(force_nocontract or {})
        self.repo = repo.rstrip("/")
        self.template_path = template_path
        self.checks_value = checks_value
        self.probe = probe            # None | 'exit' | 'entry'
        self.sabotage = sabotage      # None | (fn_name, pattern, replacement)
        self.sources = {}
        self.functions = []           # metadata per extracted fn
        self.items = []
        self.sabotage_hits = 0

    def source(self, rel):
        if rel.startswith("expand:") and rel not in self.sources:
            self.sources[rel] = rs.Source(rel, text=expand_crate(rel[len("expand:"):], self.repo, self.items))
        if rel not in self.sources:
            p = rel if rel.startswith("/") else self.repo + "/" + rel
            try:
                self.sources[rel] = rs.Source(p)
            except FileNotFoundError:
                raise LostAnchor("source file missing: " + p)
        return self.sources[rel]

    # ---- items ---------------------------------------------------------------------------
    def emit_item(self, d):
        src = self.source(d.file)
        it = src.find_one(*d.path)
        text = src.text[it.start:it.end]
        log = []
        orig = text
        text = strip_cfg(text, log)
        text = type_subs(text, log)
        text = clean_attrs(text, log)
        if d.derive_add or d.derive_del:
            mm = re.search(r"#\[\s*derive\s*\(([^)]*)\)\s*\]", text)
            if not mm:
                if d.derive_add:
                    text = "#[derive(%s)]\n" % ", ".join(d.derive_add) + text
                    log.append("X12 derive added: " + " ".join(d.derive_add))
            else:
                ds = [x.strip() for x in mm.group(1).split(",") if x.strip()]
                for x in d.derive_del:
                    if x in ds:
                        ds.remove(x)
                        log.append("X12 derive dropped: " + x)
                for x in d.derive_add:
                    if x not in ds:
                        ds.append(x)
                        log.append("X12 derive added: " + x)
                text = text[:mm.start()] + "#[derive(%s)]" % ", ".join(ds) + text[mm.end():]
        text = apply_subs(text, d.subs, log, "item " + "::".join(d.path))
        self.items.append(dict(file=d.file, path=" :: ".join(d.path), rules=log,
                               sha256=hashlib.sha256(orig.encode()).hexdigest()[:16]))
        return text

    def gen_tree(self, d):
        """spec fn tree() of a define_language! enum, generated from the (expanded) enum definition:
        Variant(a0, .., an) => Cons(a0.tree(), Cons(.., Cons(an.tree(), Nil)))"""
        src = self.source(d.file)
        it = src.find_one(*d.path)
        name = it.name
        inner = src.text[it.body_open + 1:it.body_close]
        m = rs.mask(inner)
        arms = []
        i = 0
        parts = []
        depth = 0
        cur = ""
        for k, c in enumerate(m):
            if c in "([{<":
                depth += 1
            elif c in ")]}>":
                depth -= 1
            if c == "," and depth == 0:
                parts.append(cur)
                cur = ""
            else:
                cur += inner[k] if m[k] == inner[k] else " "
        parts.append(cur)
        for v in parts:
            v = re.sub(r"#\[[^\]]*\]", "", v).strip()
            if not v:
                continue
            mm = re.match(r"([A-Za-z_][A-Za-z0-9_]*)\s*(\((.*)\))?\s*$", v, re.S)
            if not mm:
                raise LostAnchor("gen-tree: cannot read variant %r of %s" % (v, name))
            vn, fields = mm.group(1), mm.group(3)
            n = 0
            if fields is not None and fields.strip():
                depth = 0
                n = 1
                for c in fields:
                    if c in "([{<":
                        depth += 1
                    elif c in ")]}>":
                        depth -= 1
                    elif c == "," and depth == 0:
                        n += 1
                if fields.strip().endswith(","):
                    n -= 1
            binds = ", ".join("a%d" % j for j in range(n))
            expr = "T::Nil"
            for j in reversed(range(n)):
                expr = "T::Cons(Box::new(a%d.tree()), Box::new(%s))" % (j, expr)
            arms.append("            %s::%s%s => %s," % (name, vn, "(%s)" % binds if n else "", expr))
        self.items.append(dict(file=d.file, path=" :: ".join(d.path), rules=["generated spec fn tree() from the variant list (%d variants)" % len(arms)], sha256=hashlib.sha256(inner.encode()).hexdigest()[:16]))
        return "impl %s {\n    pub open spec fn tree(&self) -> T {\n        match *self {\n%s\n        }\n    }\n}\n" % (name, "\n".join(arms))

    # ---- functions -----------------------------------------------------------------------
    def emit_fn(self, d):
        src = self.source(d.file)
        it = src.find_one(*d.path)
        if it.kind != "fn" or it.body_open is None:
            raise LostAnchor("not a function with a body: " + " :: ".join(d.path))
        fp = rs.split_fn(src.text, src.m, it)
        log = []
        orig_text = src.text[it.start:it.end]
        name = d.opts.get("name", fp.name)
        qual = d.opts.get("qual", d.path[-2].replace("impl ", "") + "::" + fp.name if len(d.path) > 1 else fp.name)
        assumed = bool(d.opts.get("assumed"))
        undecidable = None
        if qual in self.force_assumed and not assumed:
            assumed = True
            undecidable = self.force_assumed[qual]
        try:
            return self._emit_fn_inner(d, src, it, fp, log, orig_text, name, qual, assumed, undecidable)
        except LostAnchor as e:
            if not hasattr(e, "qual"):
                e.qual = qual
            raise

    def _emit_fn_inner(self, d, src, it, fp, log, orig_text, name, qual, assumed, undecidable):
        ghostonly = False

        body = fp.body
        body = strip_cfg(body, log)
        body = ghost_macro(body, log)
        body = type_subs(body, log)
        if d.opts.get("drop_checks") and not undecidable:
            body = drop_checks_blocks(body, log)
        if undecidable:
            body = "{ unimplemented!() }"
            log.append("UNDECIDABLE on this tree (%s): emitted as an assumed declaration without body; handed to the bounded stand-in" % undecidable[:200])
        elif assumed and d.opts.get("nobody"):
            pass    # the body is not emitted (see below): its substitutions are not needed
        else:
            body = apply_subs(body, d.subs, log, "fn " + fp.name)
        if self.sabotage and self.sabotage[0] == qual:
            pat, rep = self.sabotage[1], self.sabotage[2]
            body2, n = re.subn(pat, rep, body, count=1, flags=re.S)
            self.sabotage_hits += n
            body = body2

        exec_body_after_rules = body

        params = fp.params
        params = strip_cfg(params, log)
        params = clean_attrs(params, log)
        params = type_subs(params, log)
        ret = fp.ret
        if ret is not None:
            ret = type_subs(ret, log)
        if d.sigsubs:
            sig = "(" + params + ")" + (" -> " + ret if ret is not None else "")
            sig = apply_subs(sig, d.sigsubs, log, "fn-sig " + fp.name)
            pm = rs.mask(sig)
            pc = rs.match_close(pm, 0)
            params = sig[1:pc]
            tail = sig[pc + 1:].strip()
            ret = tail[2:].strip() if tail.startswith("->") else None

        if assumed and d.opts.get("nobody"):
            body = "{ unimplemented!() }"
            log.append("X1 assumed declaration: body not emitted (it does not type-check outside the crate); only the signature and the assumed contract are used")
        # ---- splice ghost text into the body (X7), back to front
        if not assumed:
            body = self.splice(body, d, log, fp.name)

        # ---- signature
        head = clean_attrs(fp.attrs_text, log)
        head = strip_cfg(head, log)
        if "vis" in d.opts:
            head = re.sub(r"\bpub\b", "", head).rstrip() + " " + d.opts["vis"] + " "
        res = d.opts.get("result")
        if ret is None:
            retdecl = "" if not res else " -> (%s: ())" % res
        else:
            retdecl = " -> (%s: %s)" % (res, ret) if res else " -> " + ret
        out = []
        out.append("/*@fn-begin %s*/" % qual)
        if assumed:
            out.append("#[verifier::external_body]")
        if d.opts.get("attr") and not assumed:
            # X13: a Verus attribute on the function (e.g. verifier::exec_allows_no_decreases_clause: termination of the
            # loops / of the recursion is NOT an obligation of this function; the contract is one of partial correctness)
            out.append("#[%s]" % d.opts["attr"])
            log.append("X13 attribute #[%s]: termination of this function is not proved (partial correctness)" % d.opts["attr"])
        generics = d.opts.get("generics", fp.generics)
        if generics != fp.generics:
            log.append("X6 generics of the enclosing impl moved onto the function: " + generics)
        out.append("%sfn %s%s(%s)%s" % (head, name, generics, params, retdecl))
        if fp.where:
            out.append("    " + fp.where)
        for secname in ("requires", "ensures", "decreases"):
            t = d.sec(secname)
            if qual in self.force_nocontract:
                if secname == "requires":
                    log.append("SIGNATURE CHANGED on this tree (%s): the contract does not type-check against the new parameter list; emitted as a bare declaration (no contract is assumed or proved); its callers in this unit are undecidable" % self.force_nocontract[qual][:200])
                continue
            if t.strip():
                out.append("    " + secname)
                out.append(keep_tags(t))
        out.append(body)
        out.append("/*@fn-end %s*/" % qual)
        tags = TAG_RE.findall(d.sec("ensures") + "\n" + d.sec("requires"))
        self.functions.append(dict(
            qual=qual, name=name, file=d.file, path=" :: ".join(d.path), assumed=assumed,
            rules=log, tags=["%s:%s" % t for t in tags],
            sha256=hashlib.sha256(orig_text.encode()).hexdigest()[:16],
            diff="\n".join(difflib.unified_diff(fp.body.split("\n"), exec_body_after_rules.split("\n"), "repo", "emitted", lineterm="", n=0)),
            orig_body=fp.body,
            probe=d.opts.get("probe", "exit"),
            proved_in=d.opts.get("proved_in"),
            undecidable=undecidable,
            vname=d.opts.get("vname", qual),
        ))
        return "\n".join(out)

    def splice(self, body, d, log, fname):
        inserts = []  # (pos, text, order)
        bm = rs.mask(body)
        loops = rs.find_loops(body, bm)
        for pat, where, key in d.ats:
            ms = list(re.finditer(pat, body, re.S))
            ms = [x for x in ms if bm[x.start()] == body[x.start()]]
            if len(ms) != 1:
                raise LostAnchor("fn %s: anchor /%s/ matched %d times" % (fname, pat, len(ms)))
            pos = ms[0].start() if where == "before" else ms[0].end()
            inserts.append((pos, "\n" + d.sec(key) + "\n", 0))
        for key in list(d.sections.keys()):
            if ":" not in key or key.startswith("at:"):
                continue
            kind, n = key.split(":")
            n = int(n)
            if n < 1 or n > len(loops):
                raise LostAnchor("fn %s: loop %d not found (has %d loops)" % (fname, n, len(loops)))
            lp = loops[n - 1]
            text = d.sec(key)
            if kind == "loop":
                inserts.append((lp["body_open"], "\n" + keep_tags(text) + "\n", 0))
                if lp["kind"] == "for":
                    itn = d.opts.get("iter:%d" % n)
                    if itn:
                        k = lp["in_pos"] + 2
                        inserts.append((k, " %s:" % itn, 0))
            elif kind == "loop-start":
                inserts.append((lp["body_open"] + 1, "\n" + text + "\n", 1))
            elif kind == "loop-end":
                inserts.append((lp["body_close"], "\n" + text + "\n", 0))
        entry = d.sec("entry")
        exit_ = d.sec("exit")
        probe_here = self.probe and d.opts.get("probe", "exit") != "none"
        if probe_here:
            where = d.opts.get("probe", "exit")
            if self.probe == "entry":
                where = "entry"
            if where == "entry":
                entry = entry + "\nproof { assert(false); } /*@probe*/"
            else:
                exit_ = exit_ + "\nproof { assert(false); } /*@probe*/"
        if entry.strip() and not exit_.strip():
            inserts.append((1, "\n" + entry + "\n", 2))
        # apply inserts back to front (stable for equal positions by 'order')
        inserts.sort(key=lambda t: (t[0], t[2]))
        for pos, text, _ in reversed(inserts):
            body = body[:pos] + text + body[pos:]
        if exit_.strip():
            r = d.opts.get("result", "__ret")
            body = "{\n%s\nlet %s = %s;\n%s\n%s }" % (entry, r, body, exit_, r)
            log.append("X7 body wrapped as `let %s = {body}; <ghost>; %s`" % (r, r))
        return body

    # ---- whole unit ------------------------------------------------------------------------
    def emit_segments(self, template_path, force_assumed=False, origin=None):
        import os
        text = open(template_path).read()
        segs = parse_template(text)
        out = []
        for kind, payload in segs:
            if kind == "text":
                out.append(payload)
            elif kind == "item":
                out.append(self.emit_item(payload))
            elif kind == "fn":
                if force_assumed:
                    payload.opts["assumed"] = True
                    payload.opts["proved_in"] = origin
                    # only the signature and the contract of an included function are used: its body is not emitted, so
                    # that an edit inside it (which its own unit judges) cannot make every including unit undecidable
                    payload.opts["nobody"] = True
                out.append(self.emit_fn(payload))
            elif kind == "expect-body":
                d = payload
                src = self.source(d.file)
                it = src.find_one(*d.path)
                body = src.text[it.body_open:it.body_close + 1]
                want = "\n".join(d.sections.get("body", []))
                if rs.norm(strip_comments(body)) != rs.norm("{" + want + "}"):
                    raise LostAnchor("X5 guard: body of %s is no longer the expected one-liner `%s` (found `%s`): loops over it cannot be inlined" % (" :: ".join(d.path), want.strip(), " ".join(body.split())))
                self.items.append(dict(file=d.file, path=" :: ".join(d.path), rules=["X5 guard: body equals the expected accessor one-liner"], sha256=hashlib.sha256(body.encode()).hexdigest()[:16]))
            elif kind == "expect-text":
                d = payload
                src = self.source(d.file)
                it = src.find_one(*d.path)
                txt = src.text[it.start:it.end]
                want = "\n".join(d.sections.get("body", [])).strip()
                if not re.search(want, txt, re.S):
                    raise LostAnchor("guard: %s no longer contains the expected text /%s/" % (" :: ".join(d.path), want))
                self.items.append(dict(file=d.file, path=" :: ".join(d.path), rules=["guard: item contains /%s/" % want], sha256=hashlib.sha256(txt.encode()).hexdigest()[:16]))
            elif kind == "gen-tree":
                out.append(self.gen_tree(payload))
            elif kind == "include":
                unit = payload[0]
                if unit in self.included:
                    continue
                self.included.append(unit)
                p = os.path.join(os.path.dirname(template_path), unit + ".vt")
                out.append("// ===== included from %s (functions as assumed declarations; proved in %s) =====" % (unit, unit))
                out.append(self.emit_segments(p, True, unit))
                out.append("// ===== end of %s =====" % unit)
        return "\n".join(out)

    def emit(self):
        self.included = []
        inner = self.emit_segments(self.template_path)
        res = PRELUDE + inner + POSTLUDE
        res = res.replace("@@CHECKS@@", "true" if self.checks_value else "false")
        return res


PRELUDE = """#![allow(unused_imports, unused_variables, dead_code, unused_mut, unused_parens, unused_braces, unused_assignments, non_snake_case)]
#![feature(allocator_api)]
#![feature(pattern)]
use vstd::prelude::*;
use vstd::std_specs::hash::*;
use vstd::string::StringSliceAdditionalSpecFns;
verus! {

// X4: crate::HashMap/HashSet (Fx-hashed) -> std HashMap/HashSet (abstract map/set, arbitrary iteration order)
pub type HashMap<K, V> = std::collections::HashMap<K, V>;
pub type HashSet<T> = std::collections::HashSet<T>;
// X4: SmallHashSet (vec_collections::VecSet, a sorted small vector) -> std HashSet (abstract finite set, arbitrary iteration order)
pub type SmallHashSet<T> = std::collections::HashSet<T>;
// X3: the unit is verified once with CHECKS = false (default build) and once with CHECKS = true
pub const CHECKS: bool = @@CHECKS@@;

"""
POSTLUDE = """
} // verus!
fn main() {}
"""


def line_tables(emitted):
    """Return (fn_spans, tag_lines): fn_spans = [(qual, first_line, last_line)], tag_lines = {line: tag}."""
    spans = []
    tags = {}
    cur = None
    for i, line in enumerate(emitted.split("\n"), 1):
        m = re.search(r"/\*@fn-begin (.*?)\*/", line)
        if m:
            cur = (m.group(1), i)
        m = re.search(r"/\*@fn-end (.*?)\*/", line)
        if m and cur:
            spans.append((cur[0], cur[1], i))
            cur = None
        for t in re.finditer(r"/\*\[\[(.*?)\]\]\*/", line):
            tags.setdefault(i, []).append(t.group(1))
    return spans, tags
