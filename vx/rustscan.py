"""Small Rust-aware scanner used by the extractor (DESIGN.md 2.1).

It does not parse Rust; it delimits items, function bodies, loops and closures by matching
brackets while skipping comments, strings, char literals and lifetimes.  Anything it cannot
delimit raises LostAnchor, which the driver turns into exit 2 (never a VIOLATION).
"""
import re


class LostAnchor(Exception):
    pass


IDENT_RE = re.compile(r"[A-Za-z_][A-Za-z0-9_]*")


def mask(src):
    """Return a string of the same length where comments, strings, chars are blanked with spaces
    (newlines preserved), so that bracket matching and keyword search can work on it."""
    out = list(src)
    i, n = 0, len(src)

    def blank(a, b):
        for k in range(a, b):
            if out[k] != "\n":
                out[k] = " "

    while i < n:
        c = src[i]
        if c == "/" and i + 1 < n and src[i + 1] == "/":
            j = src.find("\n", i)
            if j < 0:
                j = n
            blank(i, j)
            i = j
        elif c == "/" and i + 1 < n and src[i + 1] == "*":
            depth, j = 1, i + 2
            while j < n and depth:
                if src.startswith("/*", j):
                    depth += 1
                    j += 2
                elif src.startswith("*/", j):
                    depth -= 1
                    j += 2
                else:
                    j += 1
            blank(i, j)
            i = j
        elif c == '"' or (c in "rb" and re.match(r'(b?r#*"|b")', src[i:]) and (i == 0 or not (src[i - 1].isalnum() or src[i - 1] == "_"))):
            m = re.match(r'(b?)(r(#*))?"', src[i:])
            if m.group(2) is not None:
                hashes = m.group(3)
                end = src.find('"' + hashes, i + m.end())
                if end < 0:
                    raise LostAnchor("unterminated raw string")
                j = end + 1 + len(hashes)
            else:
                j = i + m.end()
                while j < n and src[j] != '"':
                    j += 2 if src[j] == "\\" else 1
                j += 1
            blank(i + 1, j - 1)  # keep the quotes so the token structure survives
            out[i] = '"'
            i = j
        elif c == "'":
            # char literal or lifetime
            m = re.match(r"'(\\.[^']*|[^'\\])'", src[i:])
            if m:
                blank(i + 1, i + m.end() - 1)
                i += m.end()
            else:
                i += 1  # lifetime
        else:
            i += 1
    return "".join(out)


OPEN = {"(": ")", "[": "]", "{": "}"}
CLOSE = {v: k for k, v in OPEN.items()}


def match_close(m, i):
    """m: masked text, i: index of an opening bracket; returns index of its closing bracket."""
    stack = []
    n = len(m)
    j = i
    while j < n:
        c = m[j]
        if c in OPEN:
            stack.append(c)
        elif c in CLOSE:
            if not stack or stack[-1] != CLOSE[c]:
                raise LostAnchor("unbalanced bracket at %d" % j)
            stack.pop()
            if not stack:
                return j
        j += 1
    raise LostAnchor("unclosed bracket at %d" % i)


def skip_ws(m, i):
    while i < len(m) and m[i].isspace():
        i += 1
    return i


def _skip_generics(m, i):
    """i at '<'; returns index after matching '>' (handles ->, nested <>)."""
    depth = 0
    n = len(m)
    while i < n:
        c = m[i]
        if c == "<":
            depth += 1
        elif c == ">":
            if m[i - 1] == "-":  # '->'
                pass
            else:
                depth -= 1
                if depth == 0:
                    return i + 1
        elif c in OPEN:
            i = match_close(m, i)
        i += 1
    raise LostAnchor("unclosed generics")


class Item:
    def __init__(self, kind, name, start, end, header_end, body_open, body_close, head_kw):
        self.kind = kind          # fn, struct, enum, impl, trait, mod, const, type, use, macro, other
        self.name = name          # identifier or normalised impl header
        self.start = start        # including attributes/doc comments
        self.end = end            # exclusive
        self.header_end = header_end
        self.body_open = body_open    # index of '{' or None
        self.body_close = body_close  # index of matching '}' or None
        self.head_kw = head_kw        # index of the keyword (after attrs/vis)

    def __repr__(self):
        return "Item(%s %s %d..%d)" % (self.kind, self.name, self.start, self.end)


ITEM_KW = ("fn", "struct", "enum", "impl", "trait", "mod", "const", "static", "type", "use", "union", "macro_rules", "extern")
QUALS = ("pub", "unsafe", "async", "default", "const", "extern")


def norm(s):
    return re.sub(r"\s+", "", s)


def items_in(src, m, lo, hi):
    """Enumerate items in src[lo:hi] (a file, or the inside of an impl/trait/mod block)."""
    out = []
    i = lo
    while True:
        # skip whitespace (comments are blank in m)
        i = skip_ws(m, i)
        if i >= hi:
            break
        start = i
        # attributes
        while True:
            i = skip_ws(m, i)
            if m.startswith("#[", i) or m.startswith("#![", i):
                j = m.index("[", i)
                i = match_close(m, j) + 1
            else:
                break
        # doc comments are masked → attach preceding comment lines by walking back over src
        s2 = start
        # visibility / qualifiers
        while True:
            i = skip_ws(m, i)
            mm = IDENT_RE.match(m, i)
            if not mm:
                break
            w = mm.group(0)
            if w == "pub":
                i = mm.end()
                k = skip_ws(m, i)
                if k < hi and m[k] == "(":
                    i = match_close(m, k) + 1
                continue
            if w in ("unsafe", "async", "default"):
                i = mm.end()
                continue
            if w == "const":
                # const fn vs const item
                k = skip_ws(m, mm.end())
                m2 = IDENT_RE.match(m, k)
                if m2 and m2.group(0) in ("fn", "unsafe", "async", "extern"):
                    i = mm.end()
                    continue
                break
            if w == "extern":
                k = skip_ws(m, mm.end())
                if m[k] == '"':
                    k2 = m.index('"', k + 1) + 1
                    k3 = skip_ws(m, k2)
                    m2 = IDENT_RE.match(m, k3)
                    if m2 and m2.group(0) == "fn":
                        i = k2
                        continue
                break
            break
        mm = IDENT_RE.match(m, i)
        if not mm:
            # stray token (e.g. ';') – skip one char
            i += 1
            continue
        kw = mm.group(0)
        head_kw = i
        j = mm.end()
        name = None
        kind = kw if kw in ITEM_KW else "other"
        if kw in ("fn", "struct", "enum", "trait", "mod", "union", "type", "const", "static"):
            k = skip_ws(m, j)
            m2 = IDENT_RE.match(m, k)
            if m2 and m2.group(0) == "mut":
                k = skip_ws(m, m2.end())
                m2 = IDENT_RE.match(m, k)
            name = m2.group(0) if m2 else None
        if kw == "macro_rules":
            k = skip_ws(m, j)
            if k < hi and m[k] == "!":
                m2 = IDENT_RE.match(m, skip_ws(m, k + 1))
                name = m2.group(0) if m2 else None
        # find end
        if kw in ("use", "type", "const", "static", "extern"):
            e = _find_semicolon(m, j, hi)
            out.append(Item(kind, name, s2, e + 1, e, None, None, head_kw))
            i = e + 1
            continue
        if kind == "other":
            # macro invocation item: name!( .. ); or name! { .. }
            k = skip_ws(m, j)
            if k < hi and m[k] == "!":
                k = skip_ws(m, k + 1)
                m2 = IDENT_RE.match(m, k)
                if m2:  # macro_rules! name
                    k = skip_ws(m, m2.end())
                if m[k] in OPEN:
                    c = match_close(m, k)
                    e = c + 1
                    if m[k] != "{":
                        e = _find_semicolon(m, c, hi) + 1
                    out.append(Item("macro", kw, s2, e, k, k, c, head_kw))
                    i = e
                    continue
            raise LostAnchor("cannot delimit item at offset %d: %r" % (i, src[i:i + 40]))
        # items with a body or ';'
        k = j
        body_open = None
        while k < hi:
            c = m[k]
            if c == ";":
                break
            if c == "{":
                body_open = k
                break
            if c in "([":
                k = match_close(m, k)
            k += 1
        if k >= hi:
            raise LostAnchor("item without end at %d" % i)
        if body_open is None:
            out.append(Item(kind, name if kind != "impl" else norm(src[j:k]), s2, k + 1, k, None, None, head_kw))
            i = k + 1
            continue
        bc = match_close(m, body_open)
        if kind == "impl":
            name = norm(src[head_kw:body_open])
        e = bc + 1
        out.append(Item(kind, name, s2, e, body_open, body_open, bc, head_kw))
        i = e
    return out


def _find_semicolon(m, i, hi):
    while i < hi:
        c = m[i]
        if c == ";":
            return i
        if c in OPEN:
            i = match_close(m, i)
        i += 1
    raise LostAnchor("no ';' found")


class Source:
    def __init__(self, path, text=None):
        self.path = path
        self.text = open(path).read() if text is None else text
        self.m = mask(self.text)
        self.top = items_in(self.text, self.m, 0, len(self.text))

    def find(self, *path):
        """path elements: 'fn name' | 'struct name' | 'enum name' | 'impl <normalised header>' | 'trait name' | 'mod name'
        | 'macro name'.  Returns list of matching Items of the last element (usually one)."""
        scopes = [(0, len(self.text), self.top)]
        for depth, el in enumerate(path):
            if el.startswith("impl<"):
                kind, name = "impl", el[4:]
            else:
                kind, _, name = el.partition(" ")
            name = name.strip()
            nxt = []
            found = []
            for (lo, hi, items) in scopes:
                for it in items:
                    if it.kind != kind:
                        continue
                    if kind == "impl":
                        if norm(it.name) != norm("impl" + name) and norm(it.name) != norm(name):
                            continue
                    elif it.name != name:
                        continue
                    found.append(it)
                    if it.body_open is not None and depth < len(path) - 1:
                        nxt.append((it.body_open + 1, it.body_close, items_in(self.text, self.m, it.body_open + 1, it.body_close)))
            if depth == len(path) - 1:
                return found
            scopes = nxt
        return []

    def find_one(self, *path):
        r = self.find(*path)
        if len(r) != 1:
            raise LostAnchor("%s: expected exactly one item for %s, found %d" % (self.path, " :: ".join(path), len(r)))
        return r[0]


# ---------------------------------------------------------------------------------------------
# function-level structure


class FnParts:
    """Split of a fn item: attrs | vis+qualifiers | 'fn name<generics>(params)' | ret | where | body"""
    pass


def split_fn(src, m, it):
    fp = FnParts()
    fp.item = it
    fp.attrs_text = src[it.start:it.head_kw]
    # keyword 'fn' at head_kw
    i = it.head_kw + 2
    i = skip_ws(m, i)
    mm = IDENT_RE.match(m, i)
    fp.name = mm.group(0)
    i = mm.end()
    i = skip_ws(m, i)
    fp.generics = ""
    if m[i] == "<":
        e = _skip_generics(m, i)
        fp.generics = src[i:e]
        i = e
    i = skip_ws(m, i)
    if m[i] != "(":
        raise LostAnchor("fn %s: parameter list not found" % fp.name)
    pc = match_close(m, i)
    fp.params = src[i + 1:pc]
    fp.params_span = (i + 1, pc)
    i = skip_ws(m, pc + 1)
    fp.ret = None
    end_sig = it.body_open if it.body_open is not None else it.header_end
    rest = src[i:end_sig]
    rest_m = m[i:end_sig]
    # where clause
    wm = re.search(r"\bwhere\b", rest_m)
    where = ""
    if wm:
        where = rest[wm.start():].strip()
        rest = rest[:wm.start()]
    rest = rest.strip()
    if rest.startswith("->"):
        fp.ret = rest[2:].strip()
    elif rest:
        raise LostAnchor("fn %s: unexpected signature tail %r" % (fp.name, rest))
    fp.where = where
    fp.body = src[it.body_open:it.body_close + 1] if it.body_open is not None else None
    fp.body_span = (it.body_open, it.body_close) if it.body_open is not None else None
    return fp


LOOP_KW = re.compile(r"\b(for|while|loop)\b")


def find_loops(body, bm):
    """body: text starting with '{'.  Returns list of dicts (kind, kw_start, body_open, body_close, label_start)
    in order of appearance (textual).  'for' inside 'impl ... for' or HRTB cannot occur in bodies we ingest."""
    res = []
    for mm in LOOP_KW.finditer(bm):
        k = mm.start()
        kind = mm.group(1)
        # exclude e.g. `for<'a>` HRTB
        j = skip_ws(bm, mm.end())
        if kind == "for" and j < len(bm) and bm[j] == "<":
            continue
        # find '{' of body: first '{' at paren/bracket depth 0
        i = mm.end()
        bo = None
        while i < len(bm):
            c = bm[i]
            if c == "{":
                bo = i
                break
            if c in "([":
                i = match_close(bm, i)
            elif c == ";" or c == "}":
                break
            i += 1
        if bo is None:
            raise LostAnchor("loop without body")
        bc = match_close(bm, bo)
        # optional label  'name:
        ls = k
        pre = bm[:k].rstrip()
        lm = re.search(r"'[A-Za-z_][A-Za-z0-9_]*\s*:$", pre)
        if lm:
            ls = lm.start()
        d = dict(kind=kind, kw_start=k, kw_end=mm.end(), body_open=bo, body_close=bc, label_start=ls)
        if kind == "for":
            # `for PAT in EXPR {` – locate ' in ' at depth 0 between kw_end and bo
            i = mm.end()
            in_pos = None
            while i < bo:
                c = bm[i]
                if c in "([":
                    i = match_close(bm, i)
                elif re.match(r"\bin\b", bm[i:]) and not (bm[i - 1].isalnum() or bm[i - 1] == "_"):
                    in_pos = i
                    break
                i += 1
            if in_pos is None:
                raise LostAnchor("for without in")
            d["in_pos"] = in_pos
        res.append(d)
    return res
