import sys, subprocess
sys.path.insert(0,'/verif')
from vx.emit import Emitter
u=sys.argv[1]
import os
e=Emitter(os.environ.get('VERIF_REPO','/repo'),'/verif/contracts/%s.vt'%u, checks_value=(len(sys.argv)>2 and sys.argv[2]=='1'))
t=e.emit()
open('/var/tmp/p/%s.rs'%u,'w').write(t)
