// F17 (fixed by c354467): handle_pending -> update_analysis re-queued an e-node that is a usage of its own class under its OLD shape,
// then re-registered it under the new one; the next round of rebuild looked the old shape up: panic "no entry found for key" (rebuild.rs).
// Needs an analysis whose datum grows at that moment ("set of leaf symbols"). Run: copy to <crate>/tests/ and `cargo test --offline --test <name>`.
// Panics on the pinned commit and on 56fe5e8; passes from c354467 on (default and `checks` build).
use slotted_egraphs::*;
use std::collections::BTreeSet;

define_language! {
    pub enum T {
        F(AppliedId) = "f",
        G(AppliedId) = "g",
        P(AppliedId, AppliedId) = "p",
        Sym(Symbol),
    }
}

#[derive(Default)]
pub struct Leaves;
impl Analysis<T> for Leaves {
    type Data = BTreeSet<String>;
    fn make(eg: &EGraph<T, Self>, n: &T) -> Self::Data {
        let mut s = BTreeSet::new();
        if let T::Sym(x) = n { s.insert(x.to_string()); }
        for c in n.applied_id_occurrences() { s.extend(eg.analysis_data(c.id).iter().cloned()); }
        s
    }
    fn merge(l: Self::Data, r: Self::Data) -> Self::Data { l.union(&r).cloned().collect() }
}

#[test]
fn side() {
    let mut eg = EGraph::<T, Leaves>::default();
    let a = eg.add_expr(RecExpr::parse("a").unwrap());
    let t = eg.add_expr(RecExpr::parse("(p a b)").unwrap());
    eg.union(&a, &t);
    let b = eg.add_expr(RecExpr::parse("b").unwrap());
    let c = eg.add_expr(RecExpr::parse("c").unwrap());
    eg.add_expr(RecExpr::parse("(f c)").unwrap());
    eg.add_expr(RecExpr::parse("(g c)").unwrap());
    eg.add_expr(RecExpr::parse("(p c c)").unwrap());
    eg.union(&b, &c);
    eg.check();
    for i in eg.ids() {
        let mut join = BTreeSet::new();
        for n in eg.enodes(i) { join.extend(Leaves::make(&eg, &n)); }
        assert_eq!(*eg.analysis_data(i), join, "datum of {i:?} is not the join of make over its e-nodes");
    }
}
