// F15 (C17): str::parse::<u32> accepts "07" and "+7", so Slot::named("07"), named("+7") and named("7") were one slot
// (printing as $7), and named("f01"), named("f+1") were the fresh-kind slot $f1.  Fixed by /repo d1f2cb8.
use slotted_egraphs::*;
fn main() {
    for (a, b) in [("07", "7"), ("+7", "7"), ("f01", "f1"), ("f+1", "f1"), ("00", "0")] {
        let (x, y) = (Slot::named(a), Slot::named(b));
        println!("{:?} -> {}   {:?} -> {}", a, x, b, y);
        assert!(x != y, "the distinct names {:?} and {:?} denote the same slot {}", a, b, x);
        assert_eq!(x.to_string(), format!("${}", a));
        assert_eq!(Slot::named(&x.to_string()[1..]), x);
    }
    println!("ok");
}
