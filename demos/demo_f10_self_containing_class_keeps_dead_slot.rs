// F10 (C08): equating a class with a term that contains it, where the equation also makes slots redundant, left the
// class with a slot that none of its e-nodes mention: EGraph::check() panicked (check.rs: real.slots().is_superset(&c.slots));
// with --features checks, SlotMap::compose failed inside handle_pending.  Fixed by /repo 5300fd2.
use slotted_egraphs::*;
define_language! {
    pub enum L {
        Var(Slot) = "var",
        F3(AppliedId, AppliedId, AppliedId) = "f3",
        G(AppliedId) = "g",
    }
}
fn id(eg: &mut EGraph<L, ()>, s: &str) -> AppliedId { eg.add_expr(RecExpr::<L>::parse(s).unwrap()) }
fn main() {
    let mut eg: EGraph<L, ()> = EGraph::default();
    let a = id(&mut eg, "(g (f3 (var $4) (var $2) (var $3)))");
    let b = id(&mut eg, "(f3 (var $1) (var $4) (var $2))");
    eg.union(&a, &b);
    eg.dump();
    eg.check();
    // f3(a,b,c) = g(f3(b,c,_)) for every a: f3 depends on nothing, and X = g(X)
    let a = eg.find_applied_id(&a);
    assert!(eg.slots(a.id).is_empty());
    let c = id(&mut eg, "(g (g (f3 (var $7) (var $8) (var $9))))");
    assert!(eg.eq(&a, &c));
    println!("ok");
}
