use slotted_egraphs::*;
define_language! {
    pub enum L {
        Var(Slot) = "var",
        App(AppliedId, AppliedId) = "app",
    }
}
fn main() {
    let inputs = ["?a", "?a == ?b", "(var $x) == (var $x)", "?a == (app ?b (var $x))", "?a == ?b == ?c", "?a == (app ?b ?c)", "?a == (app ?b ?c), ?b == (var $x)", ""];
    let mut bad = 0;
    for i in inputs {
        match std::panic::catch_unwind(|| MultiPattern::<L>::parse(i)) {
            Err(_) => { println!("PANIC on {:?}", i); bad += 1; }
            Ok(Ok(p)) => println!("ok   {:?} -> {}", i, p),
            Ok(Err(_)) => println!("err  {:?}", i),
        }
    }
    assert_eq!(bad, 0);
}
