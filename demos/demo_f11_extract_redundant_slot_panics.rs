// F11 (C06, C08): extracting a class whose cheapest e-node has a redundant slot panicked
// ("SlotMap::index: index missing"; checks build: "The SlotMap doesn't map all free slots").  Fixed by /repo f58e2b9.
use slotted_egraphs::*;
define_language! {
    pub enum L {
        Var(Slot) = "var",
        Mul(AppliedId, AppliedId) = "mul",
    }
}
fn id(eg: &mut EGraph<L, ()>, s: &str) -> AppliedId { eg.add_expr(RecExpr::<L>::parse(s).unwrap()) }
fn main() {
    let mut eg: EGraph<L, ()> = EGraph::default();
    let a = id(&mut eg, "(mul (var $1) (var $2))");
    let b = id(&mut eg, "(mul (var $1) (var $3))");
    eg.union(&a, &b);
    eg.check();
    let t = ast_size_extract(&a, &eg);
    println!("extracted {}", t);
    let back = lookup_rec_expr(&t, &eg).expect("extracted term is not in the e-graph");
    assert!(eg.eq(&a, &back));
}
