// F16 (C14): a class that is merged into the class of one of its own parents (x = g(x), x being the side that dies)
// must reach the analysis fixpoint: with make = min(CAP, 1 + max of the children) and merge = max, the class that
// holds both `zero` and `g(itself)` has the datum CAP.
use slotted_egraphs::*;
define_language! {
    pub enum L {
        Zero() = "zero",
        G(AppliedId) = "g",
        H(AppliedId, AppliedId) = "h",
        K(AppliedId) = "k",
    }
}
const CAP: u64 = 8;
#[derive(Default)]
pub struct MaxDepth;
impl Analysis<L> for MaxDepth {
    type Data = u64;
    fn make(eg: &EGraph<L, Self>, n: &L) -> u64 {
        let mut s = 0u64;
        for c in n.applied_id_occurrences() { s = s.max(*eg.analysis_data(c.id)); }
        (s + 1).min(CAP)
    }
    fn merge(l: u64, r: u64) -> u64 { l.max(r) }
}
fn id(eg: &mut EGraph<L, MaxDepth>, s: &str) -> AppliedId { eg.add_expr(RecExpr::<L>::parse(s).unwrap()) }
fn run(order: bool) -> bool {
    let mut eg: EGraph<L, MaxDepth> = EGraph::default();
    let x = id(&mut eg, "zero");
    let gx = id(&mut eg, "(g zero)");
    // the class of g(zero) gets more parents than the class of zero, so that zero's class is the one that dies
    id(&mut eg, "(h (g zero) (g zero))");
    id(&mut eg, "(k (g zero))");
    if order { eg.union(&x, &gx); } else { eg.union(&gx, &x); }
    eg.check();
    let mut ok = true;
    for i in eg.ids() {
        // the datum must be the join of make over the e-nodes of the class
        let mut want = 0u64;
        for n in eg.enodes(i) { want = want.max(MaxDepth::make(&eg, &n)); }
        let got = *eg.analysis_data(i);
        println!("order {}: class {:?}: datum {}, join of make over its e-nodes {}", order, i, got, want);
        if got != want { ok = false; }
    }
    ok
}
fn main() {
    let a = run(true);
    let b = run(false);
    assert!(a && b, "a class's analysis datum is not the join of make over its e-nodes");
    println!("ok");
}
