// F14 (C08, checks build): a node with a slot that is redundant in its class, over a child class that becomes symmetric
use slotted_egraphs::*;
define_language! {
    pub enum L {
        Var(Slot) = "var",
        Mul(AppliedId, AppliedId) = "mul",
        G(AppliedId) = "g",
    }
}
fn id(eg: &mut EGraph<L, ()>, s: &str) -> AppliedId { eg.add_expr(RecExpr::<L>::parse(s).unwrap()) }
fn main() {
    let mut eg: EGraph<L, ()> = EGraph::default();
    let a = id(&mut eg, "(g (mul (var $1) (var $2)))");
    let b = id(&mut eg, "(g (mul (var $1) (var $3)))");
    eg.union(&a, &b);            // g(mul(1,2)) does not depend on its second slot
    eg.check();
    let m1 = id(&mut eg, "(mul (var $1) (var $2))");
    let m2 = id(&mut eg, "(mul (var $2) (var $1))");
    eg.union(&m1, &m2);          // mul becomes commutative: g(mul(1,2)) = g(mul(2,1)), so it does not depend on the first slot either
    eg.check();
    let a = eg.find_applied_id(&a);
    println!("slots of the g class: {:?}", eg.slots(a.id));
    let c = id(&mut eg, "(g (mul (var $5) (var $6)))");
    println!("g(mul(1,2)) == g(mul(5,6)): {}", eg.eq(&a, &c));
    assert!(eg.eq(&a, &c));
    println!("ok");
}
