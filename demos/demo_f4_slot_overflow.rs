use slotted_egraphs::*;
fn main() {
    let a = Slot::named("1073741824");
    let b = Slot::named("0");
    assert_ne!(a, b);
    let c = Slot::named("f1073741823");
    let d = Slot::named("f1073741824");
    let e = Slot::named("f0");
    assert_ne!(d, e);
    assert_ne!(c, d);
    for s in [a,b,c,d,e] { assert_eq!(Slot::named(&s.to_string()[1..]), s); }
    let f = Slot::fresh();
    assert!(![a,b,c,d,e].contains(&f));
    println!("ok {a} {b} {c} {d} {e} {f}");
}
