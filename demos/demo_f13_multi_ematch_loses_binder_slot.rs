// F13 (C05): multi_ematch returned, for a pattern variable below a binder, an invocation whose slot was a fresh
// "flexible" slot instead of the pattern's binder slot: with '?f == (lam $1 ?b)' on (lam $3 (var $3)) it answered
// b = id0[.. -> $f10]; then (lam $1 b) is lam $1. (var $f10), which is not in the class of ?f.  Fixed by /repo 3ffb8e1.
use slotted_egraphs::*;
define_language! {
    pub enum L {
        Var(Slot) = "var",
        Lam(Bind<AppliedId>) = "lam",
        App(AppliedId, AppliedId) = "app",
    }
}
fn main() {
    let mut eg: EGraph<L> = EGraph::new(());
    eg.add_expr(RecExpr::parse("(lam $3 (var $3))").unwrap());
    let pat: MultiPattern<L> = MultiPattern::parse("?f == (lam $1 ?b)").unwrap();
    let ms = multi_ematch(&pat, &eg);
    assert_eq!(ms.len(), 1);
    let n = L::Lam(Bind { slot: Slot::named("1"), elem: ms[0]["b"].clone() });
    let found = eg.lookup(&n).expect("the instantiated pattern (lam $1 ?b) is not represented");
    assert!(eg.eq(&found, &ms[0]["f"]));
    println!("ok: b = {:?}", ms[0]["b"]);
}
