// F9 (C08): a symmetry followed by a redundancy in the same orbit made shrink_slots panic
// ("SlotMap::index($f1): index missing!" from Group::new -> build_ot).  Fixed by /repo 4ed97e2.
// Run as src/main.rs of a crate that depends on slotted-egraphs = { path = "/repo" }.
use slotted_egraphs::*;
define_language! {
    pub enum L {
        Var(Slot) = "var",
        Add(AppliedId, AppliedId) = "add",
        Mul(AppliedId, AppliedId) = "mul",
        F3(AppliedId, AppliedId, AppliedId) = "f3",
        F4(AppliedId, AppliedId, AppliedId, AppliedId) = "f4",
    }
}
fn id(eg: &mut EGraph<L, ()>, s: &str) -> AppliedId { eg.add_expr(RecExpr::<L>::parse(s).unwrap()) }
fn main() {
    // 1: apply_rewrites with a commutativity rule and a rule that makes a slot redundant
    let mut eg: EGraph<L, ()> = EGraph::default();
    id(&mut eg, "(add (mul (var $1) (var $2)) (mul (var $2) (var $1)))");
    let rws: Vec<Rewrite<L, ()>> = vec![
        Rewrite::new("mul-comm", "(mul ?a ?b)", "(mul ?b ?a)"),
        Rewrite::new("forget", "(mul ?a ?b)", "(mul ?a (var $7))"),
    ];
    apply_rewrites(&mut eg, &rws);
    eg.check();
    let m = id(&mut eg, "(mul (var $1) (var $2))");
    let m2 = id(&mut eg, "(mul (var $5) (var $6))");
    println!("1: slots of mul class: {:?}; mul(1,2) == mul(5,6): {}", eg.slots(m.id), eg.eq(&m, &m2));
    assert!(eg.slots(m.id).is_empty());
    assert!(eg.eq(&m, &m2));

    // 2: f4 symmetric under (1 2) and (3 4) separately; slot 4 becomes redundant: 3 goes too, 1 and 2 stay and keep their swap
    let mut eg: EGraph<L, ()> = EGraph::default();
    let a = id(&mut eg, "(f4 (var $1) (var $2) (var $3) (var $4))");
    let b = id(&mut eg, "(f4 (var $2) (var $1) (var $3) (var $4))");
    let c = id(&mut eg, "(f4 (var $1) (var $2) (var $4) (var $3))");
    eg.union(&a, &b);
    eg.union(&a, &c);
    eg.check();
    let d = id(&mut eg, "(f4 (var $1) (var $2) (var $3) (var $9))");
    eg.union(&a, &d);
    eg.check();
    let a2 = eg.find_applied_id(&a);
    println!("2: slots of f4 class: {:?}; swap kept: {}", eg.slots(a2.id), eg.eq(&a, &b));
    assert_eq!(eg.slots(a2.id).len(), 2);
    assert!(eg.eq(&a, &b));
    let e = id(&mut eg, "(f4 (var $1) (var $2) (var $7) (var $8))");
    assert!(eg.eq(&a, &e));
    let f = id(&mut eg, "(f4 (var $1) (var $5) (var $3) (var $4))");
    assert!(!eg.eq(&a, &f));

    // 3: f3 symmetric under the 3-cycle, then its third argument becomes redundant: nothing is left
    let mut eg: EGraph<L, ()> = EGraph::default();
    let a = id(&mut eg, "(f3 (var $1) (var $2) (var $3))");
    let b = id(&mut eg, "(f3 (var $2) (var $3) (var $1))");
    eg.union(&a, &b);
    eg.check();
    let c = id(&mut eg, "(f3 (var $1) (var $2) (var $9))");
    eg.union(&a, &c);
    eg.check();
    let a = eg.find_applied_id(&a);
    println!("3: slots of f3 class: {:?}", eg.slots(a.id));
    assert!(eg.slots(a.id).is_empty());
    println!("ok");
}
