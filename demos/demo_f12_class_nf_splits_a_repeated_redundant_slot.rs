// F12 (C06, C08): Language::apply_slotmap_fresh drew a new fresh slot for every OCCURRENCE of an unmapped slot, so
// class_nf turned sub(x, x) (x redundant) into sub(f1, f2); Extractor::new looked that node up and unwrapped None.
// Fixed by /repo 4e6a22f.
use slotted_egraphs::*;
define_language! {
    pub enum L {
        Var(Slot) = "var",
        Sub(AppliedId, AppliedId) = "sub",
        G(AppliedId) = "g",
        Zero() = "zero",
    }
}
fn id(eg: &mut EGraph<L, ()>, s: &str) -> AppliedId { eg.add_expr(RecExpr::<L>::parse(s).unwrap()) }
fn main() {
    let mut eg: EGraph<L, ()> = EGraph::default();
    let a = id(&mut eg, "(sub (var $1) (var $1))");
    let b = id(&mut eg, "(g (g zero))");
    eg.union(&a, &b);
    eg.check();
    let t = ast_size_extract(&a, &eg);
    println!("extracted {}", t);
    let back = lookup_rec_expr(&t, &eg).expect("extracted term is not in the e-graph");
    assert!(eg.eq(&a, &back));
}
