use slotted_egraphs::*;
define_language! {
    pub enum L {
        Var(Slot) = "var",
        App(AppliedId, AppliedId) = "app",
    }
}
fn main() {
    let p = MultiPattern::<L>::parse("?a == (app ?b ?c), ?b == (var $x)").unwrap();
    let text = p.to_string();
    println!("{text}");
    let q = MultiPattern::<L>::parse(&text).expect("printed multi-pattern must parse back");
    assert_eq!(q.to_string(), text);
}
