// F18 (recorded, NOT repaired; KNOWN_FINDINGS.txt): an `f<n>` name that Slot::named interns as an ordinary name (n >= u32::MAX/8, not yet
// handed out by Slot::fresh) is later overtaken by the fresh counter: the fresh slot prints the same text, and the text now parses to the
// fresh slot.  Violates C17 "distinct slots have distinct names" / "printing a slot and parsing the name back yields the same slot".
// Introduced by fix 011e4fe (which keeps a parsed name from exhausting the counter).  Run: copy to <crate>/tests/, `cargo test --offline --test demo_f18`.
use slotted_egraphs::*;

#[test]
fn interned_f_name_is_overtaken_by_the_fresh_counter() {
    std::thread::spawn(|| {
        let _bump = Slot::named("f536870910");        // the largest f<n> that moves the counter: it now stands at 536870911
        let a = Slot::named("f536870911");            // not handed out yet, too large to move the counter: interned as an ordinary name
        assert_eq!(a.to_string(), "$f536870911");
        let b = Slot::fresh();                        // the counter hands out number 536870911
        assert_ne!(a, b);
        assert_ne!(a.to_string(), b.to_string(), "two different slots print the same text");
        assert_eq!(Slot::named(&a.to_string()[1..]), a, "a slot no longer parses back from its own text");
    }).join().unwrap();
}
