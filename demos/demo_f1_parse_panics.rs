use slotted_egraphs::*;
define_language! {
    pub enum L {
        Var(Slot) = "var",
        App(AppliedId, AppliedId) = "app",
        Lam(Bind<AppliedId>) = "lam",
    }
}
fn arity_ok(p: &Pattern<L>) -> bool {
    match p {
        Pattern::ENode(n, cs) => n.applied_id_occurrences().len() == cs.len() && cs.iter().all(arity_ok),
        Pattern::PVar(_) => true,
        Pattern::Subst(a, b, c) => arity_ok(a) && arity_ok(b) && arity_ok(c),
    }
}
fn main() {
    let inputs = ["", "(", "(f", "(var $x", "?x[", "?x[?y", "?x[?y :=", "?x[?y := ?z", "(app ?a", "(lam $x", "(var $x (var $y))", "(app ?a ?b ?c)", "(lam $x ?b ?c)", ")", "[", "(var $x)", "(app (var $x) ?y)[?a := ?b]"];
    let mut bad = 0;
    for i in inputs {
        let r = std::panic::catch_unwind(|| Pattern::<L>::parse(i));
        match r {
            Err(_) => { println!("PANIC on {:?}", i); bad += 1; }
            Ok(Ok(p)) => { if !arity_ok(&p) { println!("ILL-FORMED value for {:?}: {}", i, p); bad += 1; } else { println!("ok   {:?} -> {}", i, p); } }
            Ok(Err(_)) => println!("err  {:?}", i),
        }
    }
    assert_eq!(bad, 0);
}
