use slotted_egraphs::*;
define_language! {
    pub enum L {
        Var(Slot) = "var",
        App(AppliedId, AppliedId) = "app",
    }
}
fn main() {
    let mut bad = 0;
    for i in ["?x", "(app ?a ?b)", "(app (var $x) ?b)", "(var $x)[(var $x) := (var $y)]", "(app (var $x) (var $y))"] {
        match std::panic::catch_unwind(|| RecExpr::<L>::parse(i)) {
            Err(_) => { println!("PANIC on {:?}", i); bad += 1; }
            Ok(Ok(p)) => println!("ok   {:?} -> {}", i, p),
            Ok(Err(_)) => println!("err  {:?}", i),
        }
    }
    assert_eq!(bad, 0);
}
