use slotted_egraphs::*;
fn main() {
    let a = Slot::named("f0");
    let b = Slot::named("f1073741822");
    let r = std::panic::catch_unwind(|| (Slot::fresh(), Slot::fresh()));
    match r {
        Err(_) => { println!("PANIC: Slot::fresh() overflowed after parsing $f1073741822"); std::process::exit(1); }
        Ok((c, d)) => { assert!(c != a && d != a && c != b && d != b && c != d, "fresh slot collides: {a} {b} {c} {d}"); println!("ok {a} {b} {c} {d}"); }
    }
    assert_eq!(Slot::named(&b.to_string()[1..]), b);
}
