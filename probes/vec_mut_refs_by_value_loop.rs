use vstd::prelude::*;
verus! {
pub struct N3 { pub a: u32, pub b: u32, pub c: u32 }
impl N3 {
    fn occ_mut(&mut self) -> (r: Vec<&mut u32>)
        ensures r@.len() == 2, *r@[0] == old(self).a, *r@[1] == old(self).b,
            final(self).a == *final(r@[0]), final(self).b == *final(r@[1]), final(self).c == old(self).c,
    { let mut v = Vec::new(); v.push(&mut self.a); v.push(&mut self.b); v }
    fn set_all(&mut self, v: u32)
        ensures final(self).a == v, final(self).b == v, final(self).c == old(self).c,
    {
        let refs: Vec<&mut u32> = self.occ_mut();
        let ghost refs0 = refs@;
        for x in it: refs
            invariant it.seq() == refs0, refs0.len() == 2,
                forall|j: int| 0 <= j < it.index@ ==> *final(#[trigger] refs0[j]) == v,
        {
            *x = v;
        }
    }
}
}
fn main(){}
