use vstd::prelude::*;
verus! {
fn g1(v: &Vec<u32>) -> (r: Vec<u64>)
    ensures r.len() == v.len(), forall|i: int| 0 <= i < v.len() ==> r[i] == v[i] as u64
{
    v.iter().map(|x: &u32| -> (y: u64) ensures y == *x as u64 { *x as u64 }).collect()
}
fn g2(v: &Vec<(u32,u32)>) -> (r: Vec<u32>)
{
    v.iter().copied().map(|p: (u32,u32)| -> (y: u32) { p.0 }).collect()
}
fn g3(v: &Vec<u32>) -> (r: bool)
{
    v.iter().all(|x: &u32| -> (b: bool) { *x > 3 })
}
fn g4(v: &Vec<u32>, w: &Vec<u32>) -> (r: usize)
{
    let mut n: usize = 0;
    for (a, b) in v.iter().zip(w.iter()) {
        if *a == *b && n < 100 { n += 1; }
    }
    n
}
fn g5(v: &Vec<u32>) -> (r: usize)
{
    let mut n: usize = 0;
    for (i, a) in v.iter().enumerate() {
        if *a == 3 && n < 100 { n += 1; }
    }
    n
}
fn g6(v: &Vec<u32>) -> (r: Vec<u32>)
{
    v.iter().filter(|x: &&u32| -> (b: bool) { **x > 3 }).cloned().collect()
}
} // verus!
fn main() {}
