use vstd::prelude::*;
verus! {

#[derive(Clone, Copy, PartialEq, Eq)]
pub struct Slot(pub u32);

pub struct SM { pub map: Vec<(Slot, Slot)> }
impl SM {
    pub fn get(&self, s: Slot) -> (r: Option<Slot>) { None }
    pub fn insert(&mut self, a: Slot, b: Slot) { }
    pub fn remove(&mut self, a: Slot) { }
}

fn numeric(u: u32) -> (r: Slot) requires u < 0x4000_0000 { Slot(u * 4) }

fn add_slot(s: &mut Slot, m: &mut (SM, u32))
    requires old(m).1 < 0x3fff_ffff,
    ensures final(m).1 == old(m).1 + 1,
{
    let s2 = numeric(m.1);
    m.1 += 1;
    m.0.insert(*s, s2);
    *s = s2;
}

fn on_see_slot(s: &mut Slot, m: &mut (SM, u32))
    requires old(m).1 < 0x3fff_ffff,
{
    if let Some(s2) = m.0.get(*s) {
        *s = s2;
    } else {
        add_slot(s, m);
    }
}

pub trait LC: Sized {
    spec fn nslots(&self) -> nat;
    fn weak_shape_impl(&mut self, m: &mut (SM, u32))
        requires old(m).1 + old(self).nslots() < 0x3fff_ffff,
        ensures final(m).1 <= old(m).1 + old(self).nslots(), final(self).nslots() == old(self).nslots();
}

impl LC for Slot {
    open spec fn nslots(&self) -> nat { 1 }
    fn weak_shape_impl(&mut self, m: &mut (SM, u32)) {
        on_see_slot(self, m);
    }
}

pub struct Bind<T> { pub slot: Slot, pub elem: T }

impl<L: LC> LC for Bind<L> {
    open spec fn nslots(&self) -> nat { 1 + self.elem.nslots() }
    fn weak_shape_impl(&mut self, m: &mut (SM, u32)) {
        let s = self.slot;
        add_slot(&mut self.slot, m);
        self.elem.weak_shape_impl(m);
        m.0.remove(s);
    }
}

} // verus!
fn main() {}
