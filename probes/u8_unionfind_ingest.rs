use vstd::prelude::*;
verus! {

#[derive(Clone, Copy, PartialEq, Eq)]
pub struct Id(pub usize);
#[derive(Clone, Copy, PartialEq, Eq)]
pub struct Slot(pub u32);
pub struct SlotMap { pub map: Vec<(Slot, Slot)> }
impl Clone for SlotMap {
    #[verifier::external_body]
    fn clone(&self) -> (r: Self) ensures r == *self { SlotMap { map: self.map.clone() } }
}
impl SlotMap {
    #[verifier::external_body]
    pub fn compose_partial(&self, other: &SlotMap) -> (r: SlotMap) { unimplemented!() }
}
pub struct AppliedId { pub id: Id, pub m: SlotMap }
impl Clone for AppliedId {
    #[verifier::external_body]
    fn clone(&self) -> (r: Self) ensures r == *self { unimplemented!() }
}
impl AppliedId {
    pub fn new(id: Id, m: SlotMap) -> Self { AppliedId { id, m } }
    pub fn apply_slotmap(&self, m: &SlotMap) -> AppliedId { self.apply_slotmap_partial(m) }
    pub fn apply_slotmap_partial(&self, m: &SlotMap) -> AppliedId { AppliedId::new(self.id, self.m.compose_partial(m)) }
}
pub struct ProvenAppliedId { pub elem: AppliedId }
impl Clone for ProvenAppliedId {
    #[verifier::external_body]
    fn clone(&self) -> (r: Self) ensures r == *self { unimplemented!() }
}

pub struct EGraph { pub x: u32 }

impl EGraph {
    pub fn chain_pai(&self, start: &ProvenAppliedId, next: &ProvenAppliedId) -> ProvenAppliedId {
        ProvenAppliedId { elem: next.elem.apply_slotmap(&start.elem.m) }
    }

    fn unionfind_get_impl(&self, i: Id, map: &mut [ProvenAppliedId]) -> ProvenAppliedId
        requires i.0 < old(map).len()
    {
        let entry = &mut map[i.0];

        if entry.elem.id == i {
            return entry.clone();
        }

        let entry = entry.clone();

        let entry_to_leader = self.unionfind_get_impl(entry.elem.id, map);
        let new = self.chain_pai(&entry, &entry_to_leader);

        map[i.0] = new.clone();
        new
    }
}
} // verus!
fn main() {}
