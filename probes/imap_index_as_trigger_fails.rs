use vstd::prelude::*;
verus! {
spec fn good(z: u32) -> bool;
proof fn point(d: Set<u32>, g: IMap<u32,u32>, om: ISet<u32>, z: u32)
  requires d.contains(z), good(z)
  ensures om.contains(z), d.contains(g[z])
{ admit(); }
proof fn t(d: Set<u32>, g: IMap<u32,u32>, om: ISet<u32>)
  requires forall|z: u32| d.contains(z) ==> good(z)
{
    assert forall|z: u32| #![trigger g[z]] d.contains(z) implies om.contains(z) && d.contains(g[z]) by {
        point(d, g, om, z);
    }
    assert(forall|z: u32| #![trigger g[z]] d.contains(z) ==> om.contains(z) && d.contains(g[z]));
}
}
fn main(){}
