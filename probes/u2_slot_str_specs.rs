#![feature(pattern)]
use vstd::prelude::*;
use std::collections::HashMap;
verus! {

#[derive(Clone, Copy, Hash, PartialEq, Eq, PartialOrd, Ord)]
pub struct Slot(pub u32);

pub struct SlotTable {
    pub fresh_idx: u32,
    pub named_vec: Vec<String>,
    pub named_map: HashMap<String, u32>,
}

#[verifier::external_body]
#[verifier::external_type_specification]
pub struct ExParseIntError(core::num::ParseIntError);

#[verifier::external_trait_specification]
pub trait ExFromStr: Sized {
    type ExternalTraitSpecificationFor: core::str::FromStr;
    type Err;
    fn from_str(s: &str) -> Result<Self, Self::Err>;
}

pub uninterp spec fn parse_spec<F>(s: Seq<char>) -> Option<F>;

pub assume_specification<F: core::str::FromStr> [<str>::parse::<F>] (s: &str) -> (r: Result<F, <F as core::str::FromStr>::Err>)
    ensures r.is_ok() == parse_spec::<F>(s@).is_some(), r matches Ok(v) ==> v == parse_spec::<F>(s@).unwrap();

pub uninterp spec fn starts_with_spec<P>(s: Seq<char>, p: P) -> bool;
pub assume_specification<P: core::str::pattern::Pattern> [<str>::starts_with::<P>] (s: &str, p: P) -> (r: bool)
    ensures r == starts_with_spec::<P>(s@, p);

impl Slot {
    pub fn fresh(tab: &mut SlotTable) -> (r: Self)
        requires old(tab).fresh_idx <= u32::MAX - 4, old(tab).fresh_idx % 4 == 1,
        ensures r.0 == old(tab).fresh_idx, final(tab).fresh_idx == old(tab).fresh_idx + 4,
    {
            let old_val = tab.fresh_idx;
            tab.fresh_idx += 4;
            Slot(old_val)
    }

    pub fn named(s: &str, tab: &mut SlotTable) -> Slot {
        if let Ok(x) = s.parse::<u32>() {
            return Slot(x * 4); // numeric
        }
        if s.starts_with("f") { return Slot(1); }
        Slot(0)
    }
}
} // verus!
fn main() {}
