#![feature(allocator_api)]
use vstd::prelude::*;
use vstd::std_specs::hash::*;
use std::collections::{HashMap, HashSet};
verus! {
/// the stored key kk is the one the borrowed form k denotes
pub uninterp spec fn borrow_eq<K, Q: ?Sized>(kk: K, k: &Q) -> bool;
#[verifier::external_body]
pub proof fn axiom_borrow_eq_same<K>(kk: K, k: &K) ensures borrow_eq::<K, K>(kk, k) <==> kk == *k {}

pub assume_specification<'a, K, V, S, A, Q> [std::collections::HashMap::<K, V, S, A>::get_mut] (m: &'a mut std::collections::HashMap<K, V, S, A>, k: &Q) -> (r: std::option::Option<&'a mut V>)
    where
    A: std::alloc::Allocator,
    K: std::cmp::Eq + std::hash::Hash + std::borrow::Borrow<Q>,
    Q: std::marker::MetaSized + std::hash::Hash + std::cmp::Eq + ?Sized,
    S: std::hash::BuildHasher,
    ensures
        obeys_key_model::<K>() && builds_valid_hashers::<S>() ==> match r {
            Some(v) => exists|kk: K| #![trigger old(m)@.contains_key(kk)] old(m)@.contains_key(kk) && borrow_eq::<K, Q>(kk, k) && *v == old(m)@[kk] && final(m)@ == old(m)@.insert(kk, *final(v)),
            None => (forall|kk: K| #[trigger] old(m)@.contains_key(kk) ==> !borrow_eq::<K, Q>(kk, k)) && final(m)@ == old(m)@,
        };

pub struct EC { pub nodes: HashMap<u64, u32>, pub usages: HashSet<u64> }
pub struct EG { pub classes: HashMap<u32, EC>, pub hashcons: HashMap<u64, u32> }

impl EG {
    fn raw_add(&mut self, id: u32, sh: u64, psn: u32, refs: Vec<u32>)
        requires obeys_key_model::<u32>(), obeys_key_model::<u64>(), old(self).classes@.contains_key(id),
            forall|i: int| 0 <= i < refs.len() ==> old(self).classes@.contains_key(refs[i]),
        ensures final(self).hashcons@ == old(self).hashcons@.insert(sh, id),
            final(self).classes@.dom() == old(self).classes@.dom(),
            final(self).classes@[id].nodes@.contains_key(sh),
    {
        proof { axiom_borrow_eq_same::<u32>(id, &id); }
        let tmp1 = self.classes.get_mut(&id).unwrap().nodes.insert(sh, psn);
        let tmp2 = self.hashcons.insert(sh, id);
        for ref_id in refs {
            let usages = &mut self.classes.get_mut(&ref_id).unwrap().usages;
            usages.insert(sh);
        }
    }
}
}
fn main(){}
