#![feature(allocator_api)]
use vstd::prelude::*;
use std::collections::HashMap;
use std::collections::HashSet;
verus! {

pub struct C { pub nodes: HashMap<u64, u64>, pub usages: HashSet<u64> }
pub struct G { pub classes: HashMap<u64, C>, pub hashcons: HashMap<u64, u64> }

pub assume_specification<'a, K, V, S, A, Q> [std::collections::HashMap::<K, V, S, A>::get_mut] (m: &'a mut std::collections::HashMap<K, V, S, A>, k: &Q) -> (r: std::option::Option<&'a mut V>)
    where
    A: std::alloc::Allocator,
    K: std::cmp::Eq + std::hash::Hash + std::borrow::Borrow<Q>,
    Q: std::hash::Hash + std::cmp::Eq + ?Sized,
    S: std::hash::BuildHasher,
;

fn p1(g: &mut G, id: u64, sh: u64)
    requires old(g).classes@.contains_key(id),
{
    let tmp1 = g.classes.get_mut(&id).unwrap().nodes.insert(sh, 3);
    let tmp2 = g.hashcons.insert(sh, id);
}
fn p0(g: &G, id: u64) -> (r: usize)
    requires g.classes@.contains_key(id),
{
    g.classes[&id].nodes.len()
}
} // verus!
fn main() {}
