use vstd::prelude::*;
verus! {

#[derive(Clone)]
pub enum Token { Slot(u32), Ident(String), PVar(String), ColonEquals, LParen, RParen, LBracket, RBracket }

fn f1(tok: &[Token]) -> (r: Option<u32>)
{
    if let Token::Slot(s) = &tok[0] {
        return Some(*s);
    }
    None
}

fn f2(tok: &[Token]) -> (r: usize)
    requires tok.len() > 0
{
    let t2 = &tok[1..];
    t2.len()
}

fn f3(tok: &[Token]) -> (r: bool)
{
    if let Some(Token::LBracket) = tok.get(0) { true } else { false }
}

fn f4(mut tok: &[Token]) -> (r: usize)
{
    let mut n: usize = 0;
    while let Some(Token::LBracket) = tok.get(0)
        invariant n + tok.len() <= usize::MAX
        decreases tok.len()
    {
        tok = &tok[1..];
        n += 1;
    }
    n
}
} // verus!
fn main() {}
