use vstd::prelude::*;
verus! {
pub struct N3 { pub a: u32, pub b: u32, pub c: u32 }
impl N3 {
    fn occ_mut(&mut self) -> (r: Vec<&mut u32>)
        ensures r@.len() == 2, *r@[0] == old(self).a, *r@[1] == old(self).b,
            final(self).a == *final(r@[0]), final(self).b == *final(r@[1]), final(self).c == old(self).c,
    { let mut v = Vec::new(); v.push(&mut self.a); v.push(&mut self.b); v }
    fn set_all(&mut self, v: u32)
        ensures final(self).a == v, final(self).b == v, final(self).c == old(self).c,
    {
        let mut refs: Vec<&mut u32> = self.occ_mut();
        let ghost refs0 = refs@;
        let n = refs.len();
        for i in 0..n
            invariant refs@.len() == 2, n == 2, refs0.len() == 2,
                forall|j: int| 0 <= j < 2 ==> *final(#[trigger] refs@[j]) == *final(refs0[j]),
                forall|j: int| 0 <= j < i ==> *(#[trigger] refs@[j]) == v,
        {
            *(refs[i]) = v;
        }
    }
}
}
fn main(){}
