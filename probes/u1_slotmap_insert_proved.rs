use vstd::prelude::*;
verus! {

#[derive(Clone, Copy, Hash, PartialEq, Eq, PartialOrd, Ord)]
pub struct Slot(pub u32);

pub struct SlotMap {
    pub map: Vec<(Slot, Slot)>,
}

pub open spec fn sorted_strict(s: Seq<(Slot, Slot)>) -> bool {
    forall|i: int, j: int| 0 <= i < j < s.len() ==> (#[trigger] s[i]).0.0 < (#[trigger] s[j]).0.0
}
pub open spec fn has_key(s: Seq<(Slot, Slot)>, k: Slot) -> bool {
    exists|i: int| 0 <= i < s.len() && (#[trigger] s[i]).0 == k
}
pub open spec fn key_idx(s: Seq<(Slot, Slot)>, k: Slot) -> int {
    choose|i: int| 0 <= i < s.len() && (#[trigger] s[i]).0 == k
}
pub open spec fn seq_view(s: Seq<(Slot, Slot)>) -> IMap<Slot, Slot> {
    IMap::new(|k: Slot| has_key(s, k), |k: Slot| s[key_idx(s, k)].1)
}

pub proof fn lemma_view_at(s: Seq<(Slot, Slot)>, i: int)
    requires sorted_strict(s), 0 <= i < s.len(),
    ensures seq_view(s).dom().contains(s[i].0), seq_view(s)[s[i].0] == s[i].1, key_idx(s, s[i].0) == i,
{
    let k = s[i].0;
    assert(has_key(s, k));
    let j = key_idx(s, k);
    assert(0 <= j < s.len() && s[j].0 == k);
    if j < i { assert(s[j].0.0 < s[i].0.0); }
    if i < j { assert(s[i].0.0 < s[j].0.0); }
}


pub proof fn lemma_view_dom(s: Seq<(Slot, Slot)>, k: Slot)
    requires sorted_strict(s), seq_view(s).dom().contains(k),
    ensures 0 <= key_idx(s, k) < s.len(), s[key_idx(s, k)].0 == k, seq_view(s)[k] == s[key_idx(s, k)].1,
{
    assert(has_key(s, k));
}

pub proof fn lemma_update_view(s0: Seq<(Slot, Slot)>, i: int, l: Slot, r: Slot)
    requires sorted_strict(s0), 0 <= i < s0.len(), s0[i].0 == l,
    ensures sorted_strict(s0.update(i, (l, r))), seq_view(s0.update(i, (l, r))) =~= seq_view(s0).insert(l, r),
{
    let s1 = s0.update(i, (l, r));
    assert(sorted_strict(s1)) by {
        assert forall|a: int, b: int| 0 <= a < b < s1.len() implies (#[trigger] s1[a]).0.0 < (#[trigger] s1[b]).0.0 by {
            assert(s1[a].0 == s0[a].0); assert(s1[b].0 == s0[b].0);
        }
    }
    assert forall|k: Slot| seq_view(s1).dom().contains(k) == seq_view(s0).insert(l, r).dom().contains(k) by {
        if seq_view(s1).dom().contains(k) { lemma_view_dom(s1, k); let j = key_idx(s1, k); assert(s0[j].0 == k); lemma_view_at(s0, j); }
        if seq_view(s0).dom().contains(k) { lemma_view_dom(s0, k); let j = key_idx(s0, k); assert(s1[j].0 == k); lemma_view_at(s1, j); }
        if k == l { lemma_view_at(s1, i); }
    }
    assert forall|k: Slot| seq_view(s1).dom().contains(k) implies #[trigger] seq_view(s1)[k] == seq_view(s0).insert(l, r)[k] by {
        lemma_view_dom(s1, k); let j = key_idx(s1, k);
        lemma_view_at(s1, j);
        if j != i { assert(s0[j] == s1[j]); lemma_view_at(s0, j); }
    }
}

pub proof fn lemma_insert_view(s0: Seq<(Slot, Slot)>, i: int, l: Slot, r: Slot)
    requires sorted_strict(s0), 0 <= i <= s0.len(),
        forall|j: int| 0 <= j < i ==> (#[trigger] s0[j]).0.0 < l.0,
        forall|j: int| i <= j < s0.len() ==> (#[trigger] s0[j]).0.0 > l.0,
    ensures sorted_strict(s0.insert(i, (l, r))), seq_view(s0.insert(i, (l, r))) =~= seq_view(s0).insert(l, r),
{
    let s1 = s0.insert(i, (l, r));
    assert(sorted_strict(s1)) by {
        assert forall|a: int, b: int| 0 <= a < b < s1.len() implies (#[trigger] s1[a]).0.0 < (#[trigger] s1[b]).0.0 by {
            if a < i { assert(s1[a] == s0[a]); } else if a > i { assert(s1[a] == s0[a - 1]); }
            if b < i { assert(s1[b] == s0[b]); } else if b > i { assert(s1[b] == s0[b - 1]); }
        }
    }
    assert forall|k: Slot| seq_view(s1).dom().contains(k) == seq_view(s0).insert(l, r).dom().contains(k) by {
        if seq_view(s1).dom().contains(k) {
            lemma_view_dom(s1, k); let j = key_idx(s1, k);
            if j < i { assert(s0[j].0 == k); lemma_view_at(s0, j); } else if j > i { assert(s0[j - 1].0 == k); lemma_view_at(s0, j - 1); }
        }
        if seq_view(s0).dom().contains(k) {
            lemma_view_dom(s0, k); let j = key_idx(s0, k);
            if j < i { assert(s1[j].0 == k); lemma_view_at(s1, j); } else { assert(s1[j + 1].0 == k); lemma_view_at(s1, j + 1); }
        }
        if k == l { assert(s1[i].0 == l); lemma_view_at(s1, i); }
    }
    assert forall|k: Slot| seq_view(s1).dom().contains(k) implies #[trigger] seq_view(s1)[k] == seq_view(s0).insert(l, r)[k] by {
        lemma_view_dom(s1, k); let j = key_idx(s1, k);
        lemma_view_at(s1, j);
        if j < i { assert(s0[j] == s1[j]); lemma_view_at(s0, j); } else if j > i { assert(s0[j - 1] == s1[j]); lemma_view_at(s0, j - 1); }
    }
}

impl SlotMap {
    pub open spec fn wf(&self) -> bool { sorted_strict(self.map@) }
    pub open spec fn view(&self) -> IMap<Slot, Slot> { seq_view(self.map@) }

    #[verifier::external_body]
    fn search(&self, l: Slot) -> (r: Result<usize, usize>)
        requires self.wf(),
        ensures match r {
            Ok(i) => i < self.map@.len() && self.map@[i as int].0 == l,
            Err(i) => i <= self.map@.len()
                && (forall|j: int| 0 <= j < i ==> (#[trigger] self.map@[j]).0.0 < l.0)
                && (forall|j: int| i <= j < self.map@.len() ==> (#[trigger] self.map@[j]).0.0 > l.0),
        }
    {
        self.map.binary_search_by_key(&l, |(x, _)| *x)
    }

    pub fn insert(&mut self, l: Slot, r: Slot)
        requires old(self).wf(),
        ensures final(self).wf(), final(self)@ =~= old(self)@.insert(l, r),
    {
        let ghost s0 = self.map@;
        match self.search(l) {
            Ok(i) => {
                self.map[i] = (l, r);
            }
            Err(i) => {
                self.map.insert(i, (l, r));
            }
        }
        proof {
            let s1 = self.map@;
            if exists|i: int| 0 <= i < s0.len() && s0[i].0 == l && s1 == s0.update(i, (l, r)) {
                let i = choose|i: int| 0 <= i < s0.len() && s0[i].0 == l && s1 == s0.update(i, (l, r));
                lemma_update_view(s0, i, l, r);
            } else {
                assert(exists|i: int| 0 <= i <= s0.len() && s1 == s0.insert(i, (l, r))
                    && (forall|j: int| 0 <= j < i ==> (#[trigger] s0[j]).0.0 < l.0)
                    && (forall|j: int| i <= j < s0.len() ==> (#[trigger] s0[j]).0.0 > l.0));
                let i = choose|i: int| 0 <= i <= s0.len() && s1 == s0.insert(i, (l, r))
                    && (forall|j: int| 0 <= j < i ==> (#[trigger] s0[j]).0.0 < l.0)
                    && (forall|j: int| i <= j < s0.len() ==> (#[trigger] s0[j]).0.0 > l.0);
                lemma_insert_view(s0, i, l, r);
            }
        }
    }
}
} // verus!
fn main() {}
