use vstd::prelude::*;
use std::collections::HashMap;
verus! {

#[derive(Clone, Copy, PartialEq, Eq, Hash)]
pub struct Slot(pub u32);

pub trait Permutation: Sized {
    fn compose(&self, other: &Self) -> Self;
    fn inverse(&self) -> Self;
    fn at(&self, s: Slot) -> Slot;
}

pub struct Group<P: Permutation> {
    pub identity: P,
    pub next: Option<Box<Next<P>>>,
}
pub struct Next<P: Permutation> {
    pub stab: Slot,
    pub ot: HashMap<Slot, P>,
    pub g: Group<P>,
}

impl<P: Permutation> Group<P> {
    pub fn is_trivial(&self) -> bool {
        self.next.is_none()
    }
    pub fn count(&self) -> usize
        decreases self
    {
        match &self.next {
            None => 1,
            Some(n) => n.ot.len() * n.g.count(),
        }
    }
    pub fn contains(&self, p: &P) -> bool
        decreases self
    {
        match &self.next {
            None => true,
            Some(n) => {
                let Some(part) = &n.ot.get(&p.at(n.stab)) else {
                    return false;
                };
                n.g.contains(&p.compose(&part.inverse()))
            }
        }
    }
}

fn f(x: u32) -> u32 {
    if x > 3 { panic!("boom {}", x); }
    assert!(x <= 3);
    x
}
} // verus!
fn main() {}
