use vstd::prelude::*;
verus! {
#[derive(Clone, Copy, PartialEq, Eq, Structural)]
pub struct Id(pub usize);
fn teq(a: Id, b: Id) -> (r: bool) ensures r == (a == b), r == (a.0 == b.0) { a == b }

#[derive(Clone, Copy, Hash, PartialEq, Eq, PartialOrd, Ord)]
pub struct Slot(pub u32);
fn teq2(a: Slot, b: Slot) -> (r: bool) ensures r == (a.0 == b.0) { a == b }
fn tlt(a: Slot, b: Slot) -> (r: bool) ensures r == (a.0 < b.0) { a < b }
} // verus!
fn main() {}
