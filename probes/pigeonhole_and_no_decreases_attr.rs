use vstd::prelude::*;
use vstd::set_lib::*;
verus! {
proof fn pigeon(d: Set<u32>, g: IMap<u32,u32>)
    requires forall|x: u32| #[trigger] d.contains(x) ==> g.dom().contains(x) && d.contains(g[x]),
             forall|x: u32, y: u32| d.contains(x) && d.contains(y) && g[x] == g[y] ==> x == y,
    ensures forall|x: u32| d.contains(x) ==> exists|y: u32| d.contains(y) && g[y] == x,
{
    let f = |y: u32| g[y];
    let im = d.map(f);
    lemma_map_size(d, im, f);
    assert(im.subset_of(d)) by {
        assert forall|z: u32| im.contains(z) implies d.contains(z) by {
            let y = choose|y: u32| d.contains(y) && z == f(y);
        }
    }
    lemma_subset_equality(im, d);
    assert forall|x: u32| d.contains(x) implies exists|y: u32| d.contains(y) && g[y] == x by {
        assert(im.contains(x));
        let y = choose|y: u32| d.contains(y) && x == f(y);
        assert(d.contains(y) && g[y] == x);
    }
}
#[verifier::exec_allows_no_decreases_clause]
fn lp(n: u32) -> u32 { let mut i = 0u32; loop { if i >= n { break; } i = i + 1; } if n > 0 { lp(n - 1) } else { 0 } }
}
fn main(){}
