use vstd::prelude::*;
verus! {

#[derive(Clone, Copy, PartialEq, Eq, Structural)]
pub struct Id(pub usize);
#[derive(Clone, Copy, PartialEq, Eq)]
pub struct Slot(pub u32);
pub struct SlotMap { pub map: Vec<(Slot, Slot)> }
impl Clone for SlotMap {
    #[verifier::external_body]
    fn clone(&self) -> (r: Self) ensures r == *self { SlotMap { map: self.map.clone() } }
}
impl SlotMap {
    #[verifier::external_body]
    pub fn compose_partial(&self, other: &SlotMap) -> (r: SlotMap) { unimplemented!() }
}
pub struct AppliedId { pub id: Id, pub m: SlotMap }
impl Clone for AppliedId {
    #[verifier::external_body]
    fn clone(&self) -> (r: Self) ensures r == *self { unimplemented!() }
}
impl AppliedId {
    pub fn new(id: Id, m: SlotMap) -> (r: Self) ensures r.id == id, r.m == m { AppliedId { id, m } }
    pub fn apply_slotmap(&self, m: &SlotMap) -> (r: AppliedId) ensures r.id == self.id { self.apply_slotmap_partial(m) }
    pub fn apply_slotmap_partial(&self, m: &SlotMap) -> (r: AppliedId) ensures r.id == self.id { AppliedId::new(self.id, self.m.compose_partial(m)) }
}
pub struct ProvenAppliedId { pub elem: AppliedId }
impl Clone for ProvenAppliedId {
    #[verifier::external_body]
    fn clone(&self) -> (r: Self) ensures r == *self { unimplemented!() }
}

pub open spec fn ranked(map: Seq<ProvenAppliedId>, rank: Seq<nat>) -> bool {
    rank.len() == map.len() &&
    forall|i: int| 0 <= i < map.len() ==> {
        &&& (#[trigger] map[i]).elem.id.0 < map.len()
        &&& (map[i].elem.id.0 != i ==> rank[map[i].elem.id.0 as int] < rank[i])
    }
}
pub open spec fn uf_ok(map: Seq<ProvenAppliedId>) -> bool { exists|rank: Seq<nat>| ranked(map, rank) }
pub open spec fn the_rank(map: Seq<ProvenAppliedId>) -> Seq<nat> { choose|rank: Seq<nat>| ranked(map, rank) }

pub struct EGraph { pub x: u32 }

fn teq(a: Id, b: Id) -> (r: bool) ensures r == (a == b), r == (a.0 == b.0) { a == b }

impl EGraph {
    pub fn chain_pai(&self, start: &ProvenAppliedId, next: &ProvenAppliedId) -> (r: ProvenAppliedId)
        ensures r.elem.id == next.elem.id
    {
        ProvenAppliedId { elem: next.elem.apply_slotmap(&start.elem.m) }
    }

    fn unionfind_get_impl(&self, i: Id, map: &mut [ProvenAppliedId]) -> (r: ProvenAppliedId)
        requires uf_ok(old(map)@), i.0 < old(map).len()
        ensures
            final(map)@.len() == old(map)@.len(),
            ranked(final(map)@, the_rank(old(map)@)),
            r.elem.id.0 < old(map)@.len(),
            final(map)@[r.elem.id.0 as int].elem.id == r.elem.id,
            the_rank(old(map)@)[r.elem.id.0 as int] <= the_rank(old(map)@)[i.0 as int],
        decreases the_rank(old(map)@)[i.0 as int]
    {
        let ghost rk = the_rank(map@);
        let ghost m0 = map@;
        assert(ranked(m0, rk));
        let entry = &mut map[i.0];
        assert(*entry == m0[i.0 as int]);

        if entry.elem.id == i {
            assert(entry.elem.id.0 == i.0);
            return entry.clone();
        }

        let entry = entry.clone();

        proof {
            assert(map@ =~= m0);
            assert(entry == m0[i.0 as int]);
            assert(m0[i.0 as int].elem.id.0 != i.0);
            assert(rk[entry.elem.id.0 as int] < rk[i.0 as int]);
        }
        let entry_to_leader = self.unionfind_get_impl(entry.elem.id, map);
        let ghost m1 = map@;
        proof {
            assert(ranked(m1, rk));
            assert(rk[entry_to_leader.elem.id.0 as int] < rk[i.0 as int]);
        }
        let new = self.chain_pai(&entry, &entry_to_leader);

        map[i.0] = new.clone();
        proof {
            let m2 = map@;
            assert(m2 =~= m1.update(i.0 as int, new));
            assert forall|j: int| 0 <= j < m2.len() implies {
                &&& (#[trigger] m2[j]).elem.id.0 < m2.len()
                &&& (m2[j].elem.id.0 != j ==> rk[m2[j].elem.id.0 as int] < rk[j])
            } by {
                if j != i.0 as int { assert(m2[j] == m1[j]); }
            }
            assert(ranked(m2, rk));
        }
        new
    }
}
} // verus!
fn main() {}
