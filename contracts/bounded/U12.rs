//! Bounded stand-in / failing-input search for unit U12 (matcher slot correspondence) — NOT a proof.
//! host: src/rewrite/ematch.rs
//! functions: try_insert_compatible_slotmap_bij
//! Bound: every injective map with at most 3 entries over keys/values $0..$3 and every pair (k, v) over $0..$4.
use crate::*;
use super::*;
use std::collections::BTreeMap;

fn sl(i: u32) -> Slot { Slot::numeric(i) }

pub fn run(only: &[String]) -> Vec<String> {
    let mut fails = Vec::new();
    let want = |f: &str| only.is_empty() || only.iter().any(|x| x == f);
    if !want("try_insert_compatible_slotmap_bij") { return fails; }
    let mut models: Vec<BTreeMap<u32, u32>> = vec![BTreeMap::new()];
    let mut frontier = models.clone();
    for _ in 0..3 {
        let mut next = Vec::new();
        for m in &frontier {
            let lo = m.keys().next_back().map(|k| k + 1).unwrap_or(0);
            for k in lo..4 { for v in 0..4 { if !m.values().any(|x| *x == v) { let mut n = m.clone(); n.insert(k, v); next.push(n); } } }
        }
        models.extend(next.iter().cloned());
        frontier = next;
    }
    for m in &models {
        for k in 0..5u32 { for v in 0..5u32 {
            let mut sm = SlotMap::new(); for (a, b) in m { sm.insert(sl(*a), sl(*b)); }
            verif_case(format!("map {:?} insert ({}, {})", m, k, v));
            let got = try_insert_compatible_slotmap_bij(sl(k), sl(v), &mut sm);
            let functional = m.get(&k).map(|o| *o == v).unwrap_or(true);
            let mut e = m.clone(); e.insert(k, v);
            let mut vals: Vec<_> = e.values().collect(); vals.sort(); vals.dedup();
            let expect = functional && vals.len() == e.len();
            if got != expect { fails.push(format!("FAIL try_insert_compatible_slotmap_bij C05:try_insert.iff map {:?} insert (${}, ${}): got {} expected {}", m, k, v, got, expect)); }
            else if got && sm.iter().collect::<Vec<_>>() != e.iter().map(|(a, b)| (sl(*a), sl(*b))).collect::<Vec<_>>() { fails.push(format!("FAIL try_insert_compatible_slotmap_bij C05:try_insert.view map {:?} insert (${}, ${}): map afterwards {:?}", m, k, v, sm)); }
            if fails.len() >= 3 { return fails; }
        }}
    }
    fails
}
