//! Bounded stand-in / failing-input search for unit U5 (runner, stop reasons, progress measure) — NOT a proof.
//! host: src/run/runner.rs
//! functions: Runner::run RunnerLimits::check_limits apply_rewrites run_eqsat
//! Bound: 12 start terms (≤ 9 nodes each) × 9 rule subsets of a 19-rule lambda/arithmetic system, ≤ 4 rounds of
//! apply_rewrites each, and the same terms × 77 sequences that apply ONE rule per round (so that a round can add just one
//! generator to an already symmetric class, or just one redundancy); Runner::run / run_eqsat with iter limits {0, 1, 2, 3}, node limits {0, 6, 10_000}, time limits
//! {0 s, 60 s} and hooks failing at round {never, 0, 1, 2}; Runner::run with three hooks under 6 failure plans; the same three checks under a constant-folding analysis whose
//! modify hook unions classes (6 terms with numbers x 7 rule sets); a run with a sleeping hook under a 30 ms time limit; check_limits on 4 × 4 × 2 hand-made limit triples.
//! The fingerprint is computed without the progress measure and without the hash-cons size: nodes per class via
//! `enodes`, the equality partition of the tracked subterms via `eq`, slots per class via `slots`, self-symmetries per
//! class by trying every permutation of its slots (≤ 5 slots) through `eq`.
use crate::*;
use super::*;

define_language! {
    pub enum RL {
        Lam(Bind<AppliedId>) = "lam",
        App(AppliedId, AppliedId) = "app",
        Var(Slot) = "var",
        Let(Bind<AppliedId>, AppliedId) = "let",
        Add(AppliedId, AppliedId) = "add",
        Mul(AppliedId, AppliedId) = "mul",
        Sub(AppliedId, AppliedId) = "sub",
        F3(AppliedId, AppliedId, AppliedId) = "f3",
        F4(AppliedId, AppliedId, AppliedId, AppliedId) = "f4",
        Number(u32),
    }
}

type EG = EGraph<RL, ()>;

/// constant folding with a modify hook that unions the constant into the class (so that instantiating a rule's right side
/// can already merge it with the left side before union_instantiations gets to it)
#[derive(Default)] pub struct Fold;
impl Analysis<RL> for Fold {
    type Data = Option<u32>;
    fn make(eg: &EGraph<RL, Self>, n: &RL) -> Option<u32> {
        let get = |a: &AppliedId| *eg.analysis_data(a.id);
        match n { RL::Number(x) => Some(*x), RL::Add(a, b) => Some(get(a)?.wrapping_add(get(b)?)), RL::Mul(a, b) => Some(get(a)?.wrapping_mul(get(b)?)), RL::Sub(a, b) => Some(get(a)?.wrapping_sub(get(b)?)), _ => None }
    }
    fn merge(l: Option<u32>, r: Option<u32>) -> Option<u32> { l.or(r) }
    fn modify(eg: &mut EGraph<RL, Self>, i: Id) { if let Some(x) = *eg.analysis_data(i) { let a = eg.add(RL::Number(x)); let b = eg.mk_identity_applied_id(i); eg.union(&a, &b); } }
}

fn rules() -> Vec<(&'static str, &'static str, &'static str)> {
    vec![
        ("add-comm", "(add ?a ?b)", "(add ?b ?a)"),
        ("mul-comm", "(mul ?a ?b)", "(mul ?b ?a)"),
        ("add-assoc", "(add ?a (add ?b ?c))", "(add (add ?a ?b) ?c)"),
        ("mul-zero", "(mul ?a 0)", "0"),
        ("sub-self", "(sub ?a ?a)", "0"),
        ("add-zero", "(add ?a 0)", "?a"),
        ("distr", "(mul ?a (add ?b ?c))", "(add (mul ?a ?b) (mul ?a ?c))"),
        ("beta", "(app (lam $1 ?b) ?t)", "(let $1 ?b ?t)"),
        ("let-var-same", "(let $1 (var $1) ?e)", "?e"),
        ("double", "(add ?a ?a)", "(mul 2 ?a)"),
        ("mul-one", "(mul 1 ?a)", "?a"),
        ("grow", "(add ?a ?b)", "(add (add ?a 0) ?b)"),
        // only makes a slot redundant: no class is created and none dies
        ("forget", "(mul ?a ?b)", "(mul ?a (var $7))"),
        // symmetries of a class with more than two slots, obtainable one generator at a time (rules 13..18)
        ("f3-swap", "(f3 ?a ?b ?c)", "(f3 ?b ?a ?c)"),
        ("f3-rot", "(f3 ?a ?b ?c)", "(f3 ?b ?c ?a)"),
        ("f4-swap12", "(f4 ?a ?b ?c ?d)", "(f4 ?b ?a ?c ?d)"),
        ("f4-swap34", "(f4 ?a ?b ?c ?d)", "(f4 ?a ?b ?d ?c)"),
        ("f4-pairs", "(f4 ?a ?b ?c ?d)", "(f4 ?c ?d ?a ?b)"),
        ("f3-forget", "(f3 ?a ?b ?c)", "(f3 ?a ?b (var $7))"),
    ]
}

fn subsets() -> Vec<Vec<usize>> {
    vec![vec![], vec![0], vec![0, 1], vec![3, 4], vec![0, 1, 2, 5, 6], vec![7, 8], vec![12], vec![1, 12], vec![0, 1, 2, 3, 4, 5, 6, 7, 8, 9, 10, 11]]
}

fn mk_rules<N: Analysis<RL> + 'static>(idx: &[usize]) -> Vec<Rewrite<RL, N>> {
    let r = rules();
    idx.iter().map(|i| Rewrite::new(r[*i].0, r[*i].1, r[*i].2)).collect()
}

fn terms() -> Vec<&'static str> {
    vec![
        "(add (var $1) (var $2))",
        "(mul (var $1) 0)",
        "(sub (var $1) (var $1))",
        "(add (mul (var $1) (var $2)) (mul (var $2) (var $1)))",
        "(mul (var $3) (add (var $1) (var $2)))",
        "(app (lam $1 (var $1)) (var $2))",
        "(add (sub (var $1) (var $1)) (var $2))",
        "(lam $1 (add (var $1) (mul (var $2) 0)))",
        "(add (add (var $1) (var $2)) (add (var $3) 0))",
        "(f3 (var $1) (var $2) (var $3))",
        "(sub (f4 (var $1) (var $2) (var $3) (var $4)) (f4 (var $3) (var $4) (var $1) (var $2)))",
        "(mul (f3 (var $1) (var $2) (var $3)) (f3 (var $2) (var $3) (var $1)))",
    ]
}

fn subterms(re: &RecExpr<RL>, out: &mut Vec<RecExpr<RL>>) {
    for c in &re.children { subterms(c, out); }
    out.push(re.clone());
}

fn perms(v: &[Slot]) -> Vec<Vec<Slot>> {
    if v.len() <= 1 { return vec![v.to_vec()]; }
    let mut out = Vec::new();
    for i in 0..v.len() {
        let mut rest = v.to_vec();
        let x = rest.remove(i);
        for mut p in perms(&rest) { p.insert(0, x); out.push(p); }
    }
    out
}

#[derive(PartialEq, Eq, Debug, Clone)]
struct Fingerprint {
    nodes: usize,
    live: usize,
    partition: Vec<bool>,
    slots: usize,
    symmetries: usize,
}

fn fingerprint<N: Analysis<RL>>(eg: &EGraph<RL, N>, tracked: &[AppliedId]) -> Fingerprint {
    let ids = eg.ids();
    let mut nodes = 0;
    let mut slots = 0;
    let mut symmetries = 0;
    for i in &ids {
        nodes += eg.enodes(*i).len();
        let mut s: Vec<Slot> = eg.slots(*i).into_iter().collect();
        s.sort();
        slots += s.len();
        if s.len() <= 5 {
            let ident = eg.mk_identity_applied_id(*i);
            for p in perms(&s) {
                let m: SlotMap = s.iter().cloned().zip(p.iter().cloned()).collect();
                if eg.eq(&ident, &AppliedId::new(*i, m)) { symmetries += 1; }
            }
        } else {
            symmetries += eg.classes[i].group.count();
        }
    }
    let mut partition = Vec::new();
    for a in 0..tracked.len() { for b in (a + 1)..tracked.len() {
        partition.push(eg.eq(&tracked[a], &tracked[b]));
    }}
    Fingerprint { nodes, live: ids.len(), partition, slots, symmetries }
}

fn start<N: Analysis<RL> + Default>(t: &str) -> (EGraph<RL, N>, Vec<AppliedId>) {
    let re = RecExpr::<RL>::parse(t).unwrap();
    let mut eg = EGraph::<RL, N>::default();
    let mut subs = Vec::new();
    subterms(&re, &mut subs);
    let tracked: Vec<AppliedId> = subs.into_iter().map(|s| eg.add_expr(s)).collect();
    (eg, tracked)
}

/// after a run that stopped as saturated: one more round changes nothing and both sides of every match are equal
fn saturated_really<N: Analysis<RL> + 'static>(eg: &mut EGraph<RL, N>, tracked: &[AppliedId], idx: &[usize]) -> Option<String> {
    let r = rules();
    for i in idx {
        let a = Pattern::<RL>::parse(r[*i].1).unwrap();
        let b = Pattern::<RL>::parse(r[*i].2).unwrap();
        for subst in ematch_all(eg, &a) {
            let before = fingerprint(eg, tracked);
            let x = pattern_subst(eg, &a, &subst);
            let y = pattern_subst(eg, &b, &subst);
            if !eg.eq(&x, &y) { return Some(format!("rule {} has a match whose two sides are not equal", r[*i].0)); }
            if fingerprint(eg, tracked) != before { return Some(format!("instantiating rule {} added something", r[*i].0)); }
        }
    }
    let before = fingerprint(eg, tracked);
    apply_rewrites(eg, &mk_rules::<N>(idx));
    let after = fingerprint(eg, tracked);
    if before != after { return Some(format!("one more round changed the e-graph: {:?} -> {:?}", before, after)); }
    None
}

pub fn run(only: &[String]) -> Vec<String> {
    let mut fails = Vec::new();
    let want = |f: &str| only.is_empty() || only.iter().any(|x| x == f);
    let deep = std::env::var("VERIF_BOUNDED_DEEP").is_ok();
    let rounds = if deep { 6 } else { 4 };

    if want("apply_rewrites") || want("EGraph::progress") {
        let mut n = 0;
        for t in terms() { for idx in subsets() {
            let (mut eg, tracked) = start::<()>(t);
            let rws = mk_rules::<()>(&idx);
            for round in 0..rounds {
                verif_case(format!("term {} rules {:?} round {}", t, idx, round));
                if eg.total_number_of_nodes() > 400 { break; }
                let before = fingerprint(&eg, &tracked);
                let changed = apply_rewrites(&mut eg, &rws);
                let after = fingerprint(&eg, &tracked);
                if !changed && before != after && n < 3 {
                    n += 1;
                    fails.push(format!("FAIL apply_rewrites C15:apply_rewrites.false-means-unchanged term {} rules {:?} round {}: returned false but {:?} -> {:?}", t, idx, round, before, after));
                }
                if after.nodes != eg.total_number_of_nodes() && n < 3 {
                    n += 1;
                    fails.push(format!("FAIL EGraph::total_number_of_nodes C15:report.nodes term {} rules {:?} round {}: total_number_of_nodes {} but the classes hold {} nodes", t, idx, round, eg.total_number_of_nodes(), after.nodes));
                }
            }
        }}
    }

    if want("apply_rewrites") || want("EGraph::progress") {
        // one rule per round: a later round may add only a generator to an already symmetric class, or only a redundancy
        let pool: [usize; 9] = [0, 1, 4, 12, 13, 14, 15, 16, 17];
        let mut seqs: Vec<Vec<usize>> = Vec::new();
        for a in pool { for b in pool { if a != b { seqs.push(vec![a, b]); } } }
        for s in [[15usize, 16, 17], [13, 14, 18], [14, 13, 18], [15, 17, 16], [17, 15, 4]] { seqs.push(s.to_vec()); }
        let mut n = 0;
        for t in terms() { for seq in &seqs {
            let (mut eg, tracked) = start::<()>(t);
            for (round, r) in seq.iter().enumerate() {
                verif_case(format!("term {} one rule per round {:?}, round {}", t, seq, round));
                let rws = mk_rules::<()>(&[*r]);
                let before = fingerprint(&eg, &tracked);
                let changed = apply_rewrites(&mut eg, &rws);
                let after = fingerprint(&eg, &tracked);
                if !changed && before != after && n < 3 {
                    n += 1;
                    fails.push(format!("FAIL apply_rewrites C15:apply_rewrites.false-means-unchanged term {} one rule per round {:?} (rule names: see contracts/bounded/U5.rs), round {}: returned false but {:?} -> {:?}", t, seq, round, before, after));
                }
            }
        }}
    }

    if want("Runner::run") || want("Runner::run_one") {
        let mut n = 0;
        for t in terms() { for idx in subsets() { for iter_limit in [0usize, 1, 2, 3] { for node_limit in [0usize, 6, 10_000] { for time0 in [false, true] { for fail_at in [usize::MAX, 0, 1, 2] {
            if !deep && (time0 || fail_at != usize::MAX) && (iter_limit == 1 || node_limit == 6) { continue; }
            verif_case(format!("Runner term {} rules {:?} iter_limit {} node_limit {} time_limit_zero {} hook fails at {}", t, idx, iter_limit, node_limit, time0, fail_at));
            let (eg, tracked) = start::<()>(t);
            let mut runner: Runner<RL, (), (), String> = Runner::new(()).with_egraph(eg).with_iter_limit(iter_limit).with_node_limit(node_limit)
                .with_time_limit(if time0 { Duration::from_secs(0) } else { Duration::from_secs(60) });
            let calls = std::rc::Rc::new(std::cell::Cell::new(0usize));
            let calls2 = calls.clone();
            runner = runner.with_hook(move |_r| { let c = calls2.get(); calls2.set(c + 1); if c == fail_at { Err(format!("hook failed at {}", c)) } else { Ok(()) } });
            let report = runner.run(&mk_rules::<()>(&idx));
            let fp = fingerprint(&runner.egraph, &tracked);
            let desc = format!("term {} rules {:?} iter_limit {} node_limit {} time_limit_zero {} hook fails at {}", t, idx, iter_limit, node_limit, time0, fail_at);
            let mut bad: Option<(&str, String)> = None;
            if report.egraph_nodes != fp.nodes { bad = Some(("C15:report.nodes", format!("report says {} nodes, the classes hold {}", report.egraph_nodes, fp.nodes))); }
            if report.iterations > iter_limit + 2 { bad = Some(("C15:run.bound", format!("{} iterations with iter_limit {}", report.iterations, iter_limit))); }
            match &report.stop_reason {
                StopReason::Saturated => { if let Some(m) = saturated_really(&mut runner.egraph, &tracked, &idx) { bad = Some(("C15:run.saturated-true", m)); } }
                StopReason::IterationLimit => { if report.iterations <= iter_limit { bad = Some(("C15:run.iteration-limit-true", format!("stopped for the iteration limit {} after {} iterations", iter_limit, report.iterations))); } }
                StopReason::NodeLimit => { if fp.nodes <= node_limit { bad = Some(("C15:run.node-limit-true", format!("stopped for the node limit {} with {} nodes", node_limit, fp.nodes))); } }
                StopReason::TimeLimit => { if !time0 { bad = Some(("C15:run.time-limit-true", "stopped for a 60 s time limit within a run of milliseconds".to_string())); } }
                StopReason::Other(m) => { if fail_at == usize::MAX || *m != format!("hook failed at {}", fail_at) { bad = Some(("C15:run.hook-failure-true", format!("stop reason Other({}) but the hook fails at {}", m, fail_at))); } }
            }
            if fail_at != usize::MAX && calls.get() > fail_at && !matches!(report.stop_reason, StopReason::Other(_)) {
                bad = Some(("C15:run.hook-failure-reported", format!("the hook failed at call {} but the run went on and stopped as {:?}", fail_at, report.stop_reason)));
            }
            // a second call of run() on the stopped runner changes nothing and reports the same
            if bad.is_none() && !matches!(report.stop_reason, StopReason::Saturated) {
                let r2 = runner.run(&mk_rules::<()>(&idx));
                let fp2 = fingerprint(&runner.egraph, &tracked);
                if std::mem::discriminant(&r2.stop_reason) != std::mem::discriminant(&report.stop_reason) || r2.iterations != report.iterations || r2.egraph_nodes != fp2.nodes || fp2 != fp {
                    bad = Some(("C15:run.second-call", format!("first call: {:?} after {} iterations, {} nodes; second call on the same runner: {:?} after {} iterations, report says {} nodes, the classes hold {}", report.stop_reason, report.iterations, report.egraph_nodes, r2.stop_reason, r2.iterations, r2.egraph_nodes, fp2.nodes)));
                }
            }
            if let Some((c, m)) = bad { if n < 3 { n += 1; fails.push(format!("FAIL Runner::run {} {}: {}", c, desc, m)); } }
        }}}}}}
    }

    if want("Runner::run") || want("Runner::run_one") {
        // several hooks: the first error any hook returns ends the run in that iteration and is the reported reason
        let mut n = 0;
        for t in terms() { for idx in [vec![0usize, 1], vec![11], vec![0, 1, 2, 5, 6]] { for limits in [(8usize, 10_000usize), (2, 10_000), (8, 8)] { for plan in [[1usize, usize::MAX, usize::MAX], [usize::MAX, 2, usize::MAX], [2, usize::MAX, 1], [3, 1, usize::MAX], [usize::MAX, usize::MAX, 0], [0, 0, 0]] {
            verif_case(format!("Runner with three hooks: term {} rules {:?} iter_limit {} node_limit {} hooks fail at their call {:?}", t, idx, limits.0, limits.1, plan));
            let (eg, _tracked) = start::<()>(t);
            let mut runner: Runner<RL, (), (), String> = Runner::new(()).with_egraph(eg).with_iter_limit(limits.0).with_node_limit(limits.1);
            let first_err: std::rc::Rc<std::cell::RefCell<Option<String>>> = Default::default();
            let calls_after_err = std::rc::Rc::new(std::cell::Cell::new(0usize));
            for (h, fail_at) in plan.iter().enumerate() {
                let fail_at = *fail_at;
                let fe = first_err.clone();
                let cae = calls_after_err.clone();
                let mut my_calls = 0usize;
                runner = runner.with_hook(move |_r| {
                    if fe.borrow().is_some() { cae.set(cae.get() + 1); }
                    let c = my_calls; my_calls += 1;
                    if c == fail_at { let e = format!("hook {} failed at its call {}", h, c); if fe.borrow().is_none() { *fe.borrow_mut() = Some(e.clone()); } Err(e) } else { Ok(()) }
                });
            }
            let report = runner.run(&mk_rules::<()>(&idx));
            let desc = format!("three hooks: term {} rules {:?} iter_limit {} node_limit {} hooks fail at their call {:?}", t, idx, limits.0, limits.1, plan);
            let fe = first_err.borrow().clone();
            let mut bad: Option<(&str, String)> = None;
            match (&report.stop_reason, &fe) {
                (StopReason::Other(m), Some(e)) => { if m != e { bad = Some(("C15:run.hook-failure-true", format!("stop reason Other({}) but the first hook failure was {}", m, e))); } }
                (StopReason::Other(m), None) => { bad = Some(("C15:run.hook-failure-true", format!("stop reason Other({}) but no hook failed", m))); }
                (other, Some(e)) => { bad = Some(("C15:run.hook-failure-reported", format!("{} but the run went on and stopped as {:?} after {} iterations", e, other, report.iterations))); }
                (_, None) => {}
            }
            if bad.is_none() && calls_after_err.get() > 0 { bad = Some(("C15:run.hook-failure-reported", format!("hooks were called {} more times after {}", calls_after_err.get(), fe.clone().unwrap_or_default()))); }
            if let Some((c, m)) = bad { if n < 3 { n += 1; fails.push(format!("FAIL Runner::run {} {}: {}", c, desc, m)); } }
        }}}}
    }

    if want("Runner::run") || want("Runner::run_one") {
        // hooks that CHANGE the e-graph (C15 quantifies over all hooks; a hook gets `&mut Runner`): one that inserts a new term per
        // call ("lemma injection"), one that asserts an equation between two tracked sub-terms (the e-graph shrinks by congruence).
        // Whatever the hook did, the report's node count is the e-graph's and a NodeLimit stop is true of the e-graph handed back.
        let mut n = 0;
        for t in terms() { for idx in [vec![], vec![0usize, 1], vec![11], vec![0, 1, 2, 5, 6]] { for (iter_limit, node_limit) in [(3usize, 10_000usize), (5, 6), (5, 9), (5, 14), (1, 10_000)] { for kind in [0usize, 1] {
            verif_case(format!("Runner with a mutating hook: term {} rules {:?} iter_limit {} node_limit {} hook kind {}", t, idx, iter_limit, node_limit, kind));
            let (eg, tracked) = start::<()>(t);
            let mut runner: Runner<RL, (), (), String> = Runner::new(()).with_egraph(eg).with_iter_limit(iter_limit).with_node_limit(node_limit);
            let tr = tracked.clone();
            let mut k = 0u32;
            runner = runner.with_hook(move |r: &mut Runner<RL, (), (), String>| {
                k += 1;
                if kind == 0 {
                    r.egraph.add_expr(RecExpr::<RL>::parse(&format!("(mul (add {} {}) {})", 100 + k, 200 + k, 300 + k)).unwrap());
                } else if tr.len() >= 2 {
                    let a = tr[(k as usize) % tr.len()].clone(); let b = tr[(k as usize * 7 + 1) % tr.len()].clone();
                    // only closed equations between classes without slots are asserted (a union must not capture slots)
                    if r.egraph.slots(a.id).is_empty() && r.egraph.slots(b.id).is_empty() { r.egraph.union(&a, &b); }
                    else { r.egraph.add_expr(RecExpr::<RL>::parse(&format!("(sub {} {})", k, k)).unwrap()); let x = r.egraph.add_expr(RecExpr::<RL>::parse(&format!("{}", k)).unwrap()); let y = r.egraph.add_expr(RecExpr::<RL>::parse(&format!("{}", k + 1000)).unwrap()); r.egraph.union(&x, &y); }
                }
                Ok(())
            });
            let report = runner.run(&mk_rules::<()>(&idx));
            let nodes = { let mut c = 0; for i in runner.egraph.ids() { c += runner.egraph.enodes(i).len(); } c };
            let desc = format!("mutating hook kind {}: term {} rules {:?} iter_limit {} node_limit {}", kind, t, idx, iter_limit, node_limit);
            let mut bad: Option<(&str, String)> = None;
            if report.egraph_nodes != nodes { bad = Some(("C15:report.nodes", format!("report says {} nodes, the classes hold {} (stop reason {:?})", report.egraph_nodes, nodes, report.stop_reason))); }
            if let StopReason::NodeLimit = report.stop_reason { if nodes <= node_limit { bad = Some(("C15:run.node-limit-true", format!("stopped for the node limit {} with {} nodes", node_limit, nodes))); } }
            if let StopReason::IterationLimit = report.stop_reason { if report.iterations <= iter_limit { bad = Some(("C15:run.iteration-limit-true", format!("stopped for the iteration limit {} after {} iterations", iter_limit, report.iterations))); } }
            if report.iterations > iter_limit + 2 { bad = Some(("C15:run.bound", format!("{} iterations with iter_limit {}", report.iterations, iter_limit))); }
            if let Some((c, m)) = bad { if n < 3 { n += 1; fails.push(format!("FAIL Runner::run {} {}: {}", c, desc, m)); } }
        }}}}
    }

    if want("apply_rewrites") || want("Runner::run") || want("run_eqsat") {
        // under an analysis whose modify hook unions classes: instantiating a right side can already merge it into the
        // left side's class, so "the final union did nothing" does not mean "nothing changed"
        let fterms = ["(add 1 2)", "(mul (add 1 2) (var $1))", "(add (var $1) (add 2 3))", "(mul 2 (mul 3 (var $1)))", "(sub (add 1 (var $1)) (add 1 (var $1)))", "(add (mul 2 3) (mul 3 2))"];
        let fsets: Vec<Vec<usize>> = vec![vec![0], vec![1], vec![0, 1], vec![0, 1, 2], vec![0, 1, 2, 5, 6], vec![4, 0], vec![11, 0]];
        let mut n = 0;
        for t in fterms { for idx in &fsets {
            if want("apply_rewrites") {
                let (mut eg, tracked) = start::<Fold>(t);
                let rws = mk_rules::<Fold>(idx);
                for round in 0..3 {
                    verif_case(format!("constant folding analysis: term {} rules {:?} round {}", t, idx, round));
                    if eg.total_number_of_nodes() > 300 { break; }
                    let before = fingerprint(&eg, &tracked);
                    let changed = apply_rewrites(&mut eg, &rws);
                    let after = fingerprint(&eg, &tracked);
                    if !changed && before != after && n < 3 { n += 1; fails.push(format!("FAIL apply_rewrites C15:apply_rewrites.false-means-unchanged constant folding analysis, term {} rules {:?} round {}: returned false but {:?} -> {:?}", t, idx, round, before, after)); }
                }
            }
            if want("Runner::run") {
                verif_case(format!("constant folding analysis: Runner term {} rules {:?}", t, idx));
                let (eg, tracked) = start::<Fold>(t);
                let mut runner: Runner<RL, Fold, (), String> = Runner::new(Fold).with_egraph(eg).with_iter_limit(6).with_node_limit(300);
                let report = runner.run(&mk_rules::<Fold>(idx));
                if let StopReason::Saturated = report.stop_reason { if let Some(m) = saturated_really(&mut runner.egraph, &tracked, idx) { if n < 3 { n += 1; fails.push(format!("FAIL Runner::run C15:run.saturated-true constant folding analysis, term {} rules {:?}: {}", t, idx, m)); } } }
            }
            if want("run_eqsat") {
                verif_case(format!("constant folding analysis: run_eqsat term {} rules {:?}", t, idx));
                let (mut eg, tracked) = start::<Fold>(t);
                let report = run_eqsat(&mut eg, mk_rules::<Fold>(idx), 6, 60, |_e| Ok(()));
                if let StopReason::Saturated = report.stop_reason { if let Some(m) = saturated_really(&mut eg, &tracked, idx) { if n < 3 { n += 1; fails.push(format!("FAIL run_eqsat C15:run_eqsat.saturated-true constant folding analysis, term {} rules {:?}: {}", t, idx, m)); } } }
            }
        }}
    }

    if want("Runner::run") || want("Runner::run_one") {
        // the clock: a run whose every iteration takes >= 10 ms (a sleeping hook) under a 30 ms limit must stop for the time
        // limit long before its 40 iterations are used up - also when run() is called a second time on the same Runner
        let mut n = 0;
        for t in ["(add (var $1) (var $2))", "(add (add (var $1) (var $2)) (var $3))"] {
            verif_case(format!("Runner with a sleeping hook: term {} rule grow, time limit 30 ms, iter limit 40", t));
            let (eg, _tracked) = start::<()>(t);
            let mut runner: Runner<RL, (), (), String> = Runner::new(()).with_egraph(eg).with_iter_limit(40).with_node_limit(1_000_000).with_time_limit(Duration::from_millis(30))
                .with_hook(|_r| { std::thread::sleep(Duration::from_millis(10)); Ok(()) });
            let t0 = Instant::now();
            let report = runner.run(&mk_rules::<()>(&[11]));
            let took = t0.elapsed();
            if !matches!(report.stop_reason, StopReason::TimeLimit) && n < 3 { n += 1; fails.push(format!("FAIL Runner::run C15:run.time-limit-reported term {} rule grow, hook sleeps 10 ms, time limit 30 ms, iter limit 40: the run took {:?} and {} iterations and stopped as {:?}", t, took, report.iterations, report.stop_reason)); }
            if matches!(report.stop_reason, StopReason::TimeLimit) && took < Duration::from_millis(30) && n < 3 { n += 1; fails.push(format!("FAIL Runner::run C15:run.time-limit-true term {}: stopped for the 30 ms time limit after {:?}", t, took)); }
        }
    }

    if want("run_eqsat") {
        let mut n = 0;
        for t in terms() { for idx in subsets() { for iter_limit in [0usize, 1, 2, 3] { for fail_at in [usize::MAX, 0, 1] {
            verif_case(format!("run_eqsat term {} rules {:?} iter_limit {} hook fails at {}", t, idx, iter_limit, fail_at));
            let (mut eg, tracked) = start::<()>(t);
            let mut calls = 0usize;
            let report = run_eqsat(&mut eg, mk_rules::<()>(&idx), iter_limit, 60, move |_e| { let c = calls; calls += 1; if c == fail_at { Err(format!("hook failed at {}", c)) } else { Ok(()) } });
            let fp = fingerprint(&eg, &tracked);
            let desc = format!("term {} rules {:?} iter_limit {} hook fails at {}", t, idx, iter_limit, fail_at);
            let mut bad: Option<(&str, String)> = None;
            if report.egraph_nodes != fp.nodes { bad = Some(("C15:run_eqsat.nodes", format!("report says {} nodes, the classes hold {}", report.egraph_nodes, fp.nodes))); }
            if report.iterations > iter_limit { bad = Some(("C15:run_eqsat.bound", format!("{} iterations with iter_limit {}", report.iterations, iter_limit))); }
            match &report.stop_reason {
                StopReason::Saturated => { if let Some(m) = saturated_really(&mut eg, &tracked, &idx) { bad = Some(("C15:run_eqsat.saturated-true", m)); } }
                StopReason::IterationLimit => { if report.iterations != iter_limit { bad = Some(("C15:run_eqsat.iteration-limit-true", format!("stopped for the iteration limit {} after {} iterations", iter_limit, report.iterations))); } }
                StopReason::TimeLimit => { bad = Some(("C15:run_eqsat.time-limit-true", "stopped for a 60 s time limit within a run of milliseconds".to_string())); }
                StopReason::NodeLimit => { bad = Some(("C15:run_eqsat.node-limit-true", "run_eqsat has no node limit".to_string())); }
                StopReason::Other(m) => { if fail_at == usize::MAX || *m != format!("hook failed at {}", fail_at) { bad = Some(("C15:run_eqsat.hook-failure-true", format!("stop reason Other({}) but the hook fails at {}", m, fail_at))); } }
            }
            if let Some((c, m)) = bad { if n < 3 { n += 1; fails.push(format!("FAIL run_eqsat {} {}: {}", c, desc, m)); } }
        }}}}
    }

    // direct call with today's parameter list; compiled out (`--cfg verif_api_only`) when an edit changed the signature,
    // so that the API-level sections above (Runner::run, run_eqsat, apply_rewrites) still build and run
    #[cfg(not(verif_api_only))]
    if want("RunnerLimits::check_limits") {
        let (mut eg, _) = start::<()>("(add (mul (var $1) (var $2)) (mul (var $2) (var $1)))");
        let nodes = { let mut k = 0; for i in eg.ids() { k += eg.enodes(i).len(); } k };
        let _ = &mut eg;
        let mut n = 0;
        for iter_limit in [0usize, 1, 5, usize::MAX] { for iteration in [0usize, 1, 5, 6, usize::MAX] { for node_limit in [0usize, nodes - 1, nodes, usize::MAX] { for time0 in [false, true] {
            verif_case(format!("check_limits iteration {} iter_limit {} node_limit {} (nodes {}) time_limit_zero {}", iteration, iter_limit, node_limit, nodes, time0));
            let limits = RunnerLimits { iter_limit, node_limit, start_time: Some(Instant::now() - Duration::from_millis(5)), time_limit: if time0 { Duration::from_secs(0) } else { Duration::from_secs(3600) } };
            let got: RunnerResult<(), String> = limits.check_limits(iteration, &eg);
            let expect = if iteration > iter_limit { "IterationLimit" } else if nodes > node_limit { "NodeLimit" } else if time0 { "TimeLimit" } else { "Ok" };
            let g = match &got { Ok(()) => "Ok", Err(StopReason::IterationLimit) => "IterationLimit", Err(StopReason::NodeLimit) => "NodeLimit", Err(StopReason::TimeLimit) => "TimeLimit", Err(_) => "other" };
            if g != expect && n < 3 { n += 1; fails.push(format!("FAIL RunnerLimits::check_limits C15:check_limits.truthful iteration {} iter_limit {} nodes {} node_limit {} time_limit_zero {}: got {} expected {}", iteration, iter_limit, nodes, node_limit, time0, g, expect)); }
        }}}}
    }
    fails
}
