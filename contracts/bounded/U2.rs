//! Bounded stand-in / failing-input search for unit U2 (slot table) — NOT a proof.
//! functions: Slot::fresh Slot::named Slot::numeric
//! Bound: every sequence of at most 2 operations (3 over a 10-operation subset, 4 over a 6-operation subset) over {fresh, numeric(k) for k in {0,7}, named(n) for 26 names
//! (small/large numerals, f<number> forms around the counter and around the 2^30 boundary, ordinary names,
//! leading zeros, doubled 'f', upper case, sign and blank after the 'f')}, each sequence in a fresh thread (the table is thread-local).  The fresh counter is assumed to have
//! room (fewer than 2^29 calls of Slot::fresh per thread).
use crate::*;

#[derive(Clone, Debug, PartialEq, Eq)]
enum Key { Num(u64), F(u64), Name(String) }
// reference reading of a name, given the model of the fresh counter.  Independent of str::parse: a numeral counts as a
// number only in the form Display prints (ASCII digits, no sign, no leading zeros); every other text is a name of its own.
fn canon_num(s: &str) -> Option<u64> {
    if s.is_empty() || !s.chars().all(|c| c.is_ascii_digit()) || (s.len() > 1 && s.starts_with('0')) || s.len() > 10 { return None; }
    let v: u64 = s.chars().fold(0u64, |a, c| a * 10 + (c as u64 - '0' as u64));
    if v <= u32::MAX as u64 { Some(v) } else { None }
}
fn key_of(name: &str, counter: u64) -> Key {
    if let Some(x) = canon_num(name) { if x <= (u32::MAX / 4) as u64 { return Key::Num(x); } }
    if let Some(rest) = name.strip_prefix('f') { if let Some(x) = canon_num(rest) {
        let out = 4 * x + 1;
        if out + 4 <= u32::MAX as u64 && (out < counter || x < (u32::MAX / 8) as u64) { return Key::F(x); }
    } }
    Key::Name(name.to_string())
}
#[derive(Clone, Debug)]
enum Op { Fresh, Numeric(u32), Named(&'static str) }

fn ops() -> Vec<Op> {
    let mut v = vec![Op::Fresh, Op::Numeric(0), Op::Numeric(7)];
    for n in ["0", "7", "07", "1073741823", "1073741824", "1073741831", "4294967295", "f0", "f1", "f2", "f536870910", "f536870911", "f536870912", "f1073741822", "x", "fx", "f", "ff0", "ff1", "fff2", "F1", "f+1", "f 1", "f01", "+7", "007", "f00", "-0"] { v.push(Op::Named(n)); }
    v
}

fn run_seq(seq: &[Op]) -> Option<String> {
    let mut seen: Vec<(Key, Slot)> = Vec::new();
    let mut fresh_no = 0u64;
    let mut counter: u64 = 1;   // model of the table's fresh counter
    for (i, op) in seq.iter().enumerate() {
        let (key, s, is_fresh) = match op {
            // a fresh slot $f<k> is the slot the name "f<k>" denotes from then on (printing and parsing it back must give it)
            Op::Fresh => { let s = Slot::fresh(); fresh_no += 1; let k = Key::F((counter - 1) / 4); counter += 4; (k, s, true) }
            Op::Numeric(k) => (Key::Num(*k as u64), Slot::numeric(*k), false),
            Op::Named(n) => { let k = key_of(n, counter); if let Key::F(x) = k { if counter <= 4 * x + 1 { counter = 4 * x + 5; } } (k, Slot::named(n), false) }
        };
        for (k2, s2) in &seen {
            if is_fresh && *s2 == s { return Some(format!("step {}: Slot::fresh() returned {} which was obtained earlier as {:?}", i, s, k2)); }
            if !is_fresh && (*k2 == key) != (*s2 == s) { return Some(format!("step {}: {:?} gave {}, earlier {:?} gave {} (same name <=> same slot violated)", i, op, s, k2, s2)); }
        }
        // printing and parsing back
        let text = s.to_string();
        let back = Slot::named(&text[1..]);
        if back != s { return Some(format!("step {}: {:?} gave a slot that prints as {} and parses back to {}", i, op, text, back)); }
        if let Op::Named(n) = op { if let Key::Name(_) = key { if text[1..] != **n { return Some(format!("step {}: name {:?} prints as {}", i, n, text)); } } }
        seen.push((key, s));
        // The two clauses above are about the slot made in THIS step.  C17 speaks about every slot at every later time as well:
        // (a) two different slots never print the same text, (b) a slot obtained earlier still parses back from its text.
        // (Added when a sub-agent found finding F18: an `f<n>` name interned as an ordinary name is overtaken by the counter.)
        for a in 0..seen.len() { for b in (a + 1)..seen.len() {
            if seen[a].1 != seen[b].1 && seen[a].1.to_string() == seen[b].1.to_string() {
                let overtaken = |k: &Key| matches!(k, Key::Name(t) if t.strip_prefix('f').and_then(canon_num).map(|x| x >= (u32::MAX / 8) as u64).unwrap_or(false));
                let tag = if overtaken(&seen[a].0) || overtaken(&seen[b].0) { "@interned-f-name-overtaken " } else { "" };
                return Some(format!("{}step {}: two different slots ({:?} and {:?}) print the same text {}", tag, i, seen[a].0, seen[b].0, seen[a].1));
            }
        } }
        for (k2, s2) in &seen {
            let t2 = s2.to_string();
            let back2 = Slot::named(&t2[1..]);
            if back2 != *s2 {
                let overtaken = matches!(k2, Key::Name(t) if t.strip_prefix('f').and_then(canon_num).map(|x| x >= (u32::MAX / 8) as u64).unwrap_or(false));
                return Some(format!("{}step {}: the slot obtained earlier as {:?} prints as {} and now parses back to a different slot", if overtaken { "@interned-f-name-overtaken " } else { "" }, i, k2, t2));
            }
        }
    }
    None
}

pub fn run(only: &[String]) -> Vec<String> {
    let mut fails = Vec::new();
    let want = |f: &str| only.is_empty() || only.iter().any(|x| x == f);
    if !(want("Slot::fresh") || want("Slot::named") || want("Slot::numeric")) { return fails; }
    let label = if only.len() == 1 { only[0].clone() } else { "Slot::named".to_string() };
    let all = ops();
    let small: Vec<Op> = vec![Op::Fresh, Op::Named("f0"), Op::Named("f1"), Op::Named("f536870910"), Op::Named("f536870911"), Op::Named("x")];
    let mut medium = small.clone();
    medium.extend([Op::Numeric(7), Op::Named("7"), Op::Named("1073741824"), Op::Named("f1073741822"), Op::Named("ff1"), Op::Named("f01"), Op::Named("07"), Op::Named("+7")]);
    for len in 1..=4usize {
        let pool = if len == 4 { &small } else if len == 3 { &medium } else { &all };
        let n = pool.len();
        for code in 0..n.pow(len as u32) {
            let mut c = code; let mut seq = Vec::new();
            for _ in 0..len { seq.push(pool[c % n].clone()); c /= n; }
            let s2 = seq.clone();
            let r = std::thread::spawn(move || std::panic::catch_unwind(|| run_seq(&s2))).join().unwrap();
            match r {
                Err(_) => { fails.push(format!("FAIL {} C17:named.post sequence {:?} -> panic", label, seq)); }
                // (always filed under Slot::named - the site KNOWN_FINDINGS.txt names - whichever function this process was started for)
                // a failure of the specific kind recorded as finding F18 gets a clause of its own (so that KNOWN_FINDINGS.txt can name
                // exactly that history class and every other failure is still reported as a violation)
                Ok(Some(msg)) if msg.starts_with("@interned-f-name-overtaken ") => { if !fails.iter().any(|f: &String| f.contains("C17:named.interned-f-name-overtaken")) { fails.push(format!("FAIL Slot::named C17:named.interned-f-name-overtaken sequence {:?}: {}", seq, &msg["@interned-f-name-overtaken ".len()..])); } continue; }
                Ok(Some(msg)) => { fails.push(format!("FAIL {} C17:named.post sequence {:?}: {}", label, seq, msg)); }
                Ok(None) => {}
            }
            if fails.iter().filter(|f| !f.contains("interned-f-name-overtaken")).count() >= 3 { return fails; }
        }
    }
    fails
}
