//! Bounded stand-in / failing-input search for unit U8 (union-find) — NOT a proof.
//! host: src/egraph/find.rs
//! functions: AppliedId::apply_slotmap AppliedId::apply_slotmap_partial AppliedId::new EGraph::chain_pai EGraph::proven_proven_find_applied_id EGraph::unionfind_get_impl EGraph::proven_find_applied_id EGraph::find_applied_id EGraph::unionfind_get EGraph::find_id
//! Bound: 30000 pseudo-random forests (fixed seed) over at most 4 ids and slots $0..$2 (leaders may have lost slots their followers still mention), every start id,
//! compared with an independent BTreeMap implementation of "follow the entries and compose the maps".
use crate::*;
use super::*;
use std::collections::BTreeMap;

define_language! {
    pub enum UL { Var(Slot) = "var", }
}

type M = BTreeMap<u32, u32>;
fn sl(i: u32) -> Slot { Slot::numeric(i) }
fn to_sm(m: &M) -> SlotMap { let mut s = SlotMap::new(); for (k, v) in m { s.insert(sl(*k), sl(*v)); } s }
fn from_sm(s: &SlotMap) -> Vec<(Slot, Slot)> { s.iter().collect() }
fn show(f: &Vec<(usize, M)>) -> String { f.iter().enumerate().map(|(i, (p, m))| format!("{}->({}, {:?})", i, p, m)).collect::<Vec<_>>().join("; ") }

// reference: resolve(i) = entry if root, else (root, x -> start.m[next.m[x]]) with next = resolve(parent)
fn resolve(f: &Vec<(usize, M)>, i: usize) -> (usize, M) {
    let (p, m) = &f[i];
    if *p == i { return (i, m.clone()); }
    let (root, nm) = resolve(f, *p);
    let mut out = M::new();
    for (x, y) in &nm { if let Some(z) = m.get(y) { out.insert(*x, *z); } }
    (root, out)
}

struct Rng(u64);
impl Rng { fn next(&mut self, n: u32) -> u32 { self.0 = self.0.wrapping_mul(6364136223846793005).wrapping_add(1442695040888963407); ((self.0 >> 33) % (n as u64)) as u32 } }

pub fn run(only: &[String]) -> Vec<String> {
    let mut fails = Vec::new();
    let want = |f: &str| only.is_empty() || only.iter().any(|x| x == f);
    let eg: EGraph<UL, ()> = EGraph::default();
    let mut rng = Rng(0x5107_7ed);
    let mut nf = [0usize; 3];
    let mut nf3 = 0usize;
    // thorough tier (VERIF_BOUNDED_DEEP): 300000 forests over at most 6 ids
    let deep = std::env::var("VERIF_BOUNDED_DEEP").is_ok();
    for _ in 0..(if deep { 300000 } else { 30000 }) {
        let n = 1 + rng.next(if deep { 6 } else { 4 }) as usize;
        // slots of each class
        let slots: Vec<Vec<u32>> = (0..n).map(|_| (0..3).filter(|_| rng.next(2) == 0).collect()).collect();
        let mut forest: Vec<(usize, M)> = Vec::new();
        for j in 0..n {
            let root = j == 0 || rng.next(3) == 0;
            if root {
                // a leader's own entry is the identity on its CURRENT slots, which may be fewer than the slots its
                // followers' entries still mention (the class lost a redundant slot after they were written)
                forest.push((j, slots[j].iter().filter(|_| rng.next(4) != 0).map(|s| (*s, *s)).collect()));
            } else {
                let p = rng.next(j as u32) as usize;
                // injective partial map from (some of) slots[p] to slots[j]
                let mut avail = slots[j].clone();
                let mut m = M::new();
                for k in &slots[p] { if !avail.is_empty() && rng.next(3) != 0 { let v = avail.remove(rng.next(avail.len() as u32) as usize); m.insert(*k, v); } }
                forest.push((p, m));
            }
        }
        let vecform = |f: &Vec<(usize, M)>| -> Vec<ProvenAppliedId> { f.iter().map(|(p, m)| ProvenAppliedId { elem: AppliedId { id: Id(*p), m: to_sm(m) } }).collect() };
        for i in 0..n {
            if want("EGraph::unionfind_get_impl") && nf[0] < 3 {
                let mut v = vecform(&forest);
                let r = eg.unionfind_get_impl(Id(i), &mut v);
                let (root, m) = resolve(&forest, i);
                if r.elem.id != Id(root) || from_sm(&r.elem.m) != from_sm(&to_sm(&m)) {
                    nf[0] += 1; fails.push(format!("FAIL EGraph::unionfind_get_impl C13:unionfind_get_impl.result forest=[{}] get({}) got ({:?}, {:?}) expected ({}, {:?})", show(&forest), i, r.elem.id.0, from_sm(&r.elem.m), root, m));
                    continue;
                }
                // path compression must not change any answer, and the result must be a leader
                let after: Vec<(usize, M)> = v.iter().map(|e| (e.elem.id.0, e.elem.m.iter().map(|(k, x)| (k.to_string()[1..].parse().unwrap(), x.to_string()[1..].parse().unwrap())).collect())).collect();
                if after[root].0 != root { nf[0] += 1; fails.push(format!("FAIL EGraph::unionfind_get_impl C13:unionfind_get_impl.leader forest=[{}] get({}) returned id {} which is not a leader afterwards", show(&forest), i, root)); continue; }
                for j in 0..n {
                    if resolve(&after, j) != resolve(&forest, j) {
                        nf[0] += 1; fails.push(format!("FAIL EGraph::unionfind_get_impl C13:unionfind_get_impl.resolve-preserved forest=[{}] after get({}) the forest is [{}]: id {} now resolves to {:?}, before {:?}", show(&forest), i, show(&after), j, resolve(&after, j), resolve(&forest, j)));
                        break;
                    }
                }
            }
            if (want("EGraph::proven_proven_find_applied_id") || want("AppliedId::apply_slotmap_partial") || want("AppliedId::apply_slotmap") || want("AppliedId::new")) && nf[2] < 3 {
                // canonicalise an invocation of class i whose arguments are a (partial) injective map from slots[i]
                let eg2: EGraph<UL, ()> = EGraph::default();
                for (j, e) in vecform(&forest).into_iter().enumerate() { eg2.unionfind_set(Id(j), e); }
                let mut args = M::new();
                for (n_, s) in slots[i].iter().enumerate() { if rng.next(4) != 0 { args.insert(*s, 10 + n_ as u32); } }
                let inv = ProvenAppliedId { elem: AppliedId { id: Id(i), m: to_sm(&args) } };
                let r = eg2.proven_proven_find_applied_id(&inv);
                let (root, m) = resolve(&forest, i);
                let mut e = M::new();
                for (x, y) in &m { if let Some(z) = args.get(y) { e.insert(*x, *z); } }
                let label = if only.len() == 1 { only[0].clone() } else { "EGraph::proven_proven_find_applied_id".to_string() };
                if r.elem.id != Id(root) || from_sm(&r.elem.m) != from_sm(&to_sm(&e)) { nf[2] += 1; fails.push(format!("FAIL {} C13:find_applied_id.spec forest=[{}] find({} with arguments {:?}) got ({}, {:?}) expected ({}, {:?})", label, show(&forest), i, args, r.elem.id.0, from_sm(&r.elem.m), root, e)); }
            }
            if (want("EGraph::proven_find_applied_id") || want("EGraph::find_applied_id") || want("EGraph::unionfind_get") || want("EGraph::find_id")) && nf3 < 3 {
                // the entry points (thin wrappers around the core): same oracle, through the stored forest of a real EGraph
                let eg2: EGraph<UL, ()> = EGraph::default();
                for (j, e) in vecform(&forest).into_iter().enumerate() { eg2.unionfind_set(Id(j), e); }
                let mut args = M::new();
                for (n_, s) in slots[i].iter().enumerate() { if rng.next(4) != 0 { args.insert(*s, 10 + n_ as u32); } }
                let inv = AppliedId { id: Id(i), m: to_sm(&args) };
                let (root, m) = resolve(&forest, i);
                let mut e = M::new();
                for (x, y) in &m { if let Some(z) = args.get(y) { e.insert(*x, *z); } }
                if want("EGraph::proven_find_applied_id") {
                    let r = eg2.proven_find_applied_id(&inv).elem;
                    if r.id != Id(root) || from_sm(&r.m) != from_sm(&to_sm(&e)) { nf3 += 1; fails.push(format!("FAIL EGraph::proven_find_applied_id C13:proven_find_applied_id.spec forest=[{}] find({} with arguments {:?}) got ({}, {:?}) expected ({}, {:?})", show(&forest), i, args, r.id.0, from_sm(&r.m), root, e)); }
                }
                if want("EGraph::find_applied_id") {
                    let r = eg2.find_applied_id(&inv);
                    if r.id != Id(root) || from_sm(&r.m) != from_sm(&to_sm(&e)) { nf3 += 1; fails.push(format!("FAIL EGraph::find_applied_id C13:find_applied_id.public forest=[{}] find({} with arguments {:?}) got ({}, {:?}) expected ({}, {:?})", show(&forest), i, args, r.id.0, from_sm(&r.m), root, e)); }
                }
                if want("EGraph::unionfind_get") {
                    let r = eg2.unionfind_get(Id(i));
                    if r.id != Id(root) || from_sm(&r.m) != from_sm(&to_sm(&m)) { nf3 += 1; fails.push(format!("FAIL EGraph::unionfind_get C13:unionfind_get.resolve forest=[{}] get({}) got ({}, {:?}) expected ({}, {:?})", show(&forest), i, r.id.0, from_sm(&r.m), root, m)); }
                }
                if want("EGraph::find_id") {
                    let r = eg2.find_id(Id(i));
                    if r != Id(root) { nf3 += 1; fails.push(format!("FAIL EGraph::find_id C13:find_id.leader forest=[{}] find_id({}) got {} expected {}", show(&forest), i, r.0, root)); }
                }
            }
            if want("EGraph::chain_pai") && nf[1] < 3 && forest[i].0 != i {
                let v = vecform(&forest);
                let p = forest[i].0;
                let r = eg.chain_pai(&v[i], &v[p]);
                let mut e = M::new();
                for (x, y) in &forest[p].1 { if let Some(z) = forest[i].1.get(y) { e.insert(*x, *z); } }
                if r.elem.id != Id(forest[p].0) || from_sm(&r.elem.m) != from_sm(&to_sm(&e)) { nf[1] += 1; fails.push(format!("FAIL EGraph::chain_pai C13:chain_pai.compose start={:?} next={:?} got ({:?},{:?})", forest[i], forest[p], r.elem.id.0, from_sm(&r.elem.m))); }
            }
        }
    }
    fails
}
