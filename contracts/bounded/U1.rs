//! Bounded stand-in / failing-input search for unit U1 (SlotMap) — NOT a proof.
//! functions: SlotMap::bijection_from_fresh_to SlotMap::compose SlotMap::compose_fresh SlotMap::compose_partial SlotMap::contains_key SlotMap::from_pairs SlotMap::get SlotMap::identity SlotMap::index SlotMap::insert SlotMap::inverse SlotMap::is_bijection SlotMap::is_empty SlotMap::is_perm SlotMap::keys SlotMap::keys_vec SlotMap::len SlotMap::remove SlotMap::search SlotMap::try_union SlotMap::union SlotMap::values SlotMap::values_vec
//! Placed into a scratch copy of the crate as `crate::verif_bounded` (never into /repo).
//! Bound: all maps with at most 3 entries over keys/values $0..$3, arguments over $0..$4; 40 random operation sequences of length 60 over 16 keys;
//! 12 (deep: 26) sizes between 11 and 257 (513) entries x 4 kinds of fixed-seed large maps, every operation.
use crate::*;
use std::collections::BTreeMap;

type Model = BTreeMap<u32, u32>;

fn sl(i: u32) -> Slot { Slot::numeric(i) }
fn build(m: &Model) -> SlotMap { let mut s = SlotMap::new(); for (k, v) in m { s.insert(sl(*k), sl(*v)); } s }
fn build_rev(m: &Model) -> SlotMap { let mut s = SlotMap::new(); for (k, v) in m.iter().rev() { s.insert(sl(*k), sl(*v)); } s }
fn pairs(s: &SlotMap) -> Vec<(Slot, Slot)> { s.iter().collect() }
fn mpairs(m: &Model) -> Vec<(Slot, Slot)> { m.iter().map(|(k, v)| (sl(*k), sl(*v))).collect() }
fn show(m: &Model) -> String { format!("{{{}}}", m.iter().map(|(k, v)| format!("${}->${}", k, v)).collect::<Vec<_>>().join(",")) }
fn shows(s: &SlotMap) -> String { format!("{{{}}}", s.iter().map(|(k, v)| format!("{}->{}", k, v)).collect::<Vec<_>>().join(",")) }
fn injective(m: &Model) -> bool { let mut vs: Vec<_> = m.values().collect(); vs.sort(); vs.dedup(); vs.len() == m.len() }

fn deep() -> bool { std::env::var("VERIF_BOUNDED_DEEP").is_ok() }
fn all_models() -> Vec<Model> {
    // thorough tier (VERIF_BOUNDED_DEEP): maps with up to 4 entries over 5 slots (3 over 4 otherwise)
    let (size, span) = if deep() { (4, 5) } else { (3, 4) };
    let mut out = vec![Model::new()];
    let mut frontier = vec![Model::new()];
    for _ in 0..size {
        let mut next = Vec::new();
        for m in &frontier {
            let lo = m.keys().next_back().map(|k| k + 1).unwrap_or(0);
            for k in lo..span { for v in 0..span { let mut n = m.clone(); n.insert(k, v); next.push(n); } }
        }
        out.extend(next.iter().cloned());
        frontier = next;
    }
    out
}

pub fn run(only: &[String]) -> Vec<String> {
    let mut fails: Vec<String> = Vec::new();
    let want = |f: &str| only.is_empty() || only.iter().any(|x| x == f);
    let models = all_models();
    let mut fail = |f: &str, clause: &str, msg: String| { if fails.iter().filter(|x| x.starts_with(&format!("FAIL {} ", f))).count() < 3 { fails.push(format!("FAIL {} {} {}", f, clause, msg)); } };

    for m in &models {
        verif_case(format!("m={} (all single-map operations with arguments $0..$4)", show(m)));
        let s = build(m);
        if want("SlotMap::insert") {
            if pairs(&s) != mpairs(m) || pairs(&build_rev(m)) != mpairs(m) { fail("SlotMap::insert", "C19:insert.view", format!("building {} by inserts gives {}", show(m), shows(&s))); }
            for l in 0..5 { for r in 0..5 {
                let mut t = s.clone(); t.insert(sl(l), sl(r));
                let mut e = m.clone(); e.insert(l, r);
                if pairs(&t) != mpairs(&e) { fail("SlotMap::insert", "C19:insert.view", format!("m={} insert(${},${}) got {} expected {}", show(m), l, r, shows(&t), show(&e))); }
            }}
        }
        for x in 0..5 {
            if want("SlotMap::remove") {
                let mut t = s.clone(); t.remove(sl(x));
                let mut e = m.clone(); e.remove(&x);
                if pairs(&t) != mpairs(&e) { fail("SlotMap::remove", "C19:remove.view", format!("m={} remove(${}) got {} expected {}", show(m), x, shows(&t), show(&e))); }
            }
            if want("SlotMap::get") && s.get(sl(x)) != m.get(&x).map(|v| sl(*v)) { fail("SlotMap::get", "C19:get.view", format!("m={} get(${}) got {:?}", show(m), x, s.get(sl(x)))); }
            if want("SlotMap::contains_key") && s.contains_key(sl(x)) != m.contains_key(&x) { fail("SlotMap::contains_key", "C19:contains_key.view", format!("m={} contains_key(${})", show(m), x)); }
            if want("SlotMap::index") && m.contains_key(&x) && s[sl(x)] != sl(m[&x]) { fail("SlotMap::index", "C19:index.view", format!("m={} index(${}) got {}", show(m), x, s[sl(x)])); }
        }
        if want("SlotMap::len") && s.len() != m.len() { fail("SlotMap::len", "C19:len.pairs", format!("m={} len got {}", show(m), s.len())); }
        if want("SlotMap::is_empty") && s.is_empty() != m.is_empty() { fail("SlotMap::is_empty", "C19:is_empty.view", format!("m={}", show(m))); }
        if want("SlotMap::is_bijection") && s.is_bijection() != injective(m) { fail("SlotMap::is_bijection", "C19:is_bijection.inj", format!("m={} got {}", show(m), s.is_bijection())); }
        if want("SlotMap::is_perm") {
            let mut ks: Vec<_> = m.keys().cloned().collect(); let mut vs: Vec<_> = m.values().cloned().collect(); ks.sort(); vs.sort();
            let e = injective(m) && ks == vs;
            if s.is_perm() != e { fail("SlotMap::is_perm", "C19:is_perm.perm", format!("m={} got {}", show(m), s.is_perm())); }
        }
        if want("SlotMap::inverse") && injective(m) {
            let e: Model = m.iter().map(|(k, v)| (*v, *k)).collect();
            let t = s.inverse();
            if pairs(&t) != mpairs(&e) { fail("SlotMap::inverse", "C19:inverse.inv", format!("m={} inverse got {}", show(m), shows(&t))); }
            if pairs(&t.inverse()) != mpairs(m) { fail("SlotMap::inverse", "C19:inverse.inv", format!("m={} inverse twice got {}", show(m), shows(&t.inverse()))); }
        }
        if want("SlotMap::keys") { let e: SmallHashSet<Slot> = m.keys().map(|k| sl(*k)).collect(); if s.keys() != e { fail("SlotMap::keys", "C19:keys", format!("m={}", show(m))); } }
        if want("SlotMap::values") { let e: SmallHashSet<Slot> = m.values().map(|k| sl(*k)).collect(); if s.values() != e { fail("SlotMap::values", "C19:values", format!("m={}", show(m))); } }
        if want("SlotMap::keys_vec") && s.keys_vec() != m.keys().map(|k| sl(*k)).collect::<Vec<_>>() { fail("SlotMap::keys_vec", "C19:keys_vec", format!("m={}", show(m))); }
        if want("SlotMap::values_vec") && s.values_vec() != m.values().map(|k| sl(*k)).collect::<Vec<_>>() { fail("SlotMap::values_vec", "C19:values_vec", format!("m={}", show(m))); }
        if want("SlotMap::from_pairs") { let t = SlotMap::from_pairs(&mpairs(m)); if pairs(&t) != mpairs(m) || t != s { fail("SlotMap::from_pairs", "C19:from_pairs", format!("m={} got {}", show(m), shows(&t))); } }
        if want("SlotMap::identity") {
            let set: SmallHashSet<Slot> = m.keys().map(|k| sl(*k)).collect();
            let e: Model = m.keys().map(|k| (*k, *k)).collect();
            let t = SlotMap::identity(&set);
            if pairs(&t) != mpairs(&e) { fail("SlotMap::identity", "C19:identity.view", format!("set=keys of {} got {}", show(m), shows(&t))); }
        }
        if want("SlotMap::bijection_from_fresh_to") {
            let set: SmallHashSet<Slot> = m.keys().map(|k| sl(*k)).collect();
            let before = Slot::fresh();
            let t = SlotMap::bijection_from_fresh_to(&set);
            let ok = t.is_bijection() && t.values() == set && t.len() == set.len() && t.keys().iter().all(|k| *k > before && !set.contains(k));
            if !ok { fail("SlotMap::bijection_from_fresh_to", "C19:bijection_from_fresh_to", format!("set=keys of {} got {}", show(m), shows(&t))); }
        }
    }
    // maps beyond SmallVec's inline capacity of ten: fixed-seed random operation sequences over 16 keys
    {
        let mut seed: u64 = 0x51a7_7ed5;
        let mut rnd = |n: u64| -> u32 { seed = seed.wrapping_mul(6364136223846793005).wrapping_add(1442695040888963407); ((seed >> 33) % n) as u32 };
        for round in 0..40 {
            let mut s = SlotMap::new(); let mut m = Model::new();
            for step in 0..60 {
                let (k, v) = (rnd(16), rnd(16));
                let op = rnd(4);
                verif_case(format!("long sequence round {} step {}: m={} op {} k=${} v=${}", round, step, show(&m), op, k, v));
                if op < 3 { if want("SlotMap::insert") || want("SlotMap::get") || want("SlotMap::search") { s.insert(sl(k), sl(v)); m.insert(k, v); } }
                else if want("SlotMap::remove") || want("SlotMap::insert") { s.remove(sl(k)); m.remove(&k); }
                if pairs(&s) != mpairs(&m) { fail("SlotMap::insert", "C19:insert.view", format!("after a long insert/remove sequence the map is {} but the reference is {}", shows(&s), show(&m))); break; }
                if want("SlotMap::get") && s.get(sl(v)) != m.get(&v).map(|x| sl(*x)) { fail("SlotMap::get", "C19:get.view", format!("m={} get(${})", show(&m), v)); }
                if want("SlotMap::inverse") && injective(&m) && m.len() > 10 {
                    let e: Model = m.iter().map(|(a, b)| (*b, *a)).collect();
                    if pairs(&s.inverse()) != mpairs(&e) { fail("SlotMap::inverse", "C19:inverse.inv", format!("m={} inverse", show(&m))); }
                }
                if want("SlotMap::compose_partial") && m.len() > 10 {
                    let e: Model = m.iter().filter_map(|(x, y)| m.get(y).map(|z| (*x, *z))).collect();
                    if pairs(&s.compose_partial(&s)) != mpairs(&e) { fail("SlotMap::compose_partial", "C19:compose_partial.view", format!("m={} composed with itself", show(&m))); }
                }
            }
        }
    }
    // LARGE maps (a fast path may be switched on by size: SmallVec's inline capacity 10, std's small-sort cut-off 20, powers of two):
    // fixed-seed random maps of 11 .. 257 entries over an alphabet four times their size (random, permutation and monotone
    // maps), every operation against the BTreeMap reference (seed C19-h)
    {
        let mut seed: u64 = 0x1a26e_5eed;
        let mut rnd = |n: u64| -> u32 { seed = seed.wrapping_mul(6364136223846793005).wrapping_add(1442695040888963407); ((seed >> 33) % n) as u32 };
        let sizes: &[usize] = if deep() { &[11, 12, 15, 16, 17, 19, 20, 21, 22, 24, 31, 32, 33, 40, 48, 63, 64, 65, 100, 127, 128, 129, 200, 256, 257, 513] } else { &[11, 16, 17, 20, 21, 24, 32, 33, 64, 65, 129, 257] };
        for &n in sizes { for kind in 0..4 {
            let alpha = (4 * n) as u64;
            let mut m = Model::new();
            let mut vals: Vec<u32> = (0..alpha as u32).collect();
            for i in (1..vals.len()).rev() { let j = rnd(i as u64 + 1) as usize; vals.swap(i, j); }
            match kind {
                0 => { let mut i = 0; while m.len() < n { let k = rnd(alpha); if !m.contains_key(&k) { m.insert(k, vals[i]); i += 1; } } }          // injective, random
                1 => { while m.len() < n { m.insert(rnd(alpha), rnd(alpha / 2)); } }                                                             // not injective (usually)
                2 => { let ks: Vec<u32> = vals[..n].to_vec(); let mut vs = ks.clone(); for i in (1..n).rev() { let j = rnd(i as u64 + 1) as usize; vs.swap(i, j); } for (k, v) in ks.iter().zip(vs) { m.insert(*k, v); } }   // permutation
                _ => { let mut ks: Vec<u32> = vals[..n].to_vec(); ks.sort(); for (i, k) in ks.iter().enumerate() { m.insert(*k, 2 * i as u32 + 1); } }                                     // monotone
            }
            verif_case(format!("large map: {} entries, kind {}: m={}", n, kind, show(&m)));
            let s = build(&m);
            let d = format!("{} entries (kind {}) m={}", n, kind, show(&m));
            if want("SlotMap::insert") && (pairs(&s) != mpairs(&m) || pairs(&build_rev(&m)) != mpairs(&m)) { fail("SlotMap::insert", "C19:insert.view", format!("building by inserts: {}", d)); }
            if want("SlotMap::from_pairs") { let mut ps = mpairs(&m); ps.reverse(); let t = SlotMap::from_pairs(&ps); if pairs(&t) != mpairs(&m) || t != s { fail("SlotMap::from_pairs", "C19:from_pairs", format!("{} got {}", d, shows(&t))); } }
            if want("SlotMap::len") && s.len() != m.len() { fail("SlotMap::len", "C19:len.pairs", d.clone()); }
            for x in 0..alpha as u32 {
                if want("SlotMap::get") && s.get(sl(x)) != m.get(&x).map(|v| sl(*v)) { fail("SlotMap::get", "C19:get.view", format!("{} get(${})", d, x)); break; }
                if want("SlotMap::contains_key") && s.contains_key(sl(x)) != m.contains_key(&x) { fail("SlotMap::contains_key", "C19:contains_key.view", format!("{} contains_key(${})", d, x)); break; }
            }
            if want("SlotMap::remove") { for _ in 0..8 { let x = rnd(alpha); let mut t = s.clone(); t.remove(sl(x)); let mut e = m.clone(); e.remove(&x); if pairs(&t) != mpairs(&e) { fail("SlotMap::remove", "C19:remove.view", format!("{} remove(${})", d, x)); } } }
            if want("SlotMap::insert") { for _ in 0..8 { let (k, v) = (rnd(alpha), rnd(alpha)); let mut t = s.clone(); t.insert(sl(k), sl(v)); let mut e = m.clone(); e.insert(k, v); if pairs(&t) != mpairs(&e) { fail("SlotMap::insert", "C19:insert.view", format!("{} insert(${},${})", d, k, v)); } } }
            if want("SlotMap::is_bijection") && s.is_bijection() != injective(&m) { fail("SlotMap::is_bijection", "C19:is_bijection.inj", format!("{} got {}", d, s.is_bijection())); }
            if want("SlotMap::is_perm") {
                let mut ks: Vec<_> = m.keys().cloned().collect(); let mut vs: Vec<_> = m.values().cloned().collect(); ks.sort(); vs.sort();
                if s.is_perm() != (injective(&m) && ks == vs) { fail("SlotMap::is_perm", "C19:is_perm.perm", format!("{} got {}", d, s.is_perm())); }
            }
            if want("SlotMap::inverse") && injective(&m) {
                let e: Model = m.iter().map(|(k, v)| (*v, *k)).collect();
                let t = s.inverse();
                if pairs(&t) != mpairs(&e) || t != build(&e) { fail("SlotMap::inverse", "C19:inverse.inv", format!("{} inverse got {}", d, shows(&t))); }
                else if pairs(&t.inverse()) != mpairs(&m) { fail("SlotMap::inverse", "C19:inverse.inv", format!("{} inverse twice", d)); }
            }
            if want("SlotMap::keys") { let e: SmallHashSet<Slot> = m.keys().map(|k| sl(*k)).collect(); if s.keys() != e { fail("SlotMap::keys", "C19:keys", d.clone()); } }
            if want("SlotMap::values") { let e: SmallHashSet<Slot> = m.values().map(|k| sl(*k)).collect(); if s.values() != e { fail("SlotMap::values", "C19:values", d.clone()); } }
            if want("SlotMap::keys_vec") && s.keys_vec() != m.keys().map(|k| sl(*k)).collect::<Vec<_>>() { fail("SlotMap::keys_vec", "C19:keys_vec", d.clone()); }
            if want("SlotMap::values_vec") && s.values_vec() != m.values().map(|k| sl(*k)).collect::<Vec<_>>() { fail("SlotMap::values_vec", "C19:values_vec", d.clone()); }
            if want("SlotMap::identity") { let set: SmallHashSet<Slot> = m.keys().map(|k| sl(*k)).collect(); let e: Model = m.keys().map(|k| (*k, *k)).collect(); if pairs(&SlotMap::identity(&set)) != mpairs(&e) { fail("SlotMap::identity", "C19:identity.view", d.clone()); } }
            // a second large map over the same alphabet for the binary operations
            let mut b = Model::new();
            while b.len() < n { b.insert(rnd(alpha), rnd(alpha)); }
            let sb = build(&b);
            let d2 = format!("a: {} b={}", d, show(&b));
            if want("SlotMap::compose_partial") || want("SlotMap::compose") {
                let e: Model = m.iter().filter_map(|(x, y)| b.get(y).map(|z| (*x, *z))).collect();
                if pairs(&s.compose_partial(&sb)) != mpairs(&e) { fail("SlotMap::compose_partial", "C19:compose_partial.view", d2.clone()); }
                if injective(&m) { let inv: Model = m.iter().map(|(k, v)| (*v, *k)).collect(); let id: Model = m.keys().map(|k| (*k, *k)).collect();
                    if want("SlotMap::compose") && pairs(&s.compose(&build(&inv))) != mpairs(&id) { fail("SlotMap::compose", "C19:compose.view", format!("{} composed with its inverse is not the identity", d)); } }
            }
            if want("SlotMap::try_union") || want("SlotMap::union") {
                let agree = m.iter().all(|(k, v)| b.get(k).map(|w| w == v).unwrap_or(true));
                let mut e = m.clone(); for (k, v) in &b { e.insert(*k, *v); }
                let t = s.try_union(&sb);
                let ok = match (&t, agree) { (Some(t), true) => pairs(t) == mpairs(&e), (None, false) => true, _ => false };
                if want("SlotMap::try_union") && !ok { fail("SlotMap::try_union", "C19:try_union", d2.clone()); }
                // a compatible partner: b restricted to the keys on which it agrees or that a lacks
                let c: Model = b.iter().filter(|(k, v)| m.get(k).map(|w| w == *v).unwrap_or(true)).map(|(k, v)| (*k, *v)).collect();
                let mut e = m.clone(); for (k, v) in &c { e.insert(*k, *v); }
                if want("SlotMap::union") && pairs(&s.union(&build(&c))) != mpairs(&e) { fail("SlotMap::union", "C19:union.view", format!("a: {} b={}", d, show(&c))); }
                if want("SlotMap::try_union") && s.try_union(&build(&c)).map(|t| pairs(&t)) != Some(mpairs(&e)) { fail("SlotMap::try_union", "C19:try_union", format!("a: {} b={}", d, show(&c))); }
            }
        }}
    }
    // binary operations: all pairs (every 7th model on each side in the thorough tier, whose model set is much larger)
    let step = if deep() { 7 } else { 1 };
    for a in models.iter().step_by(step) { for b in models.iter().step_by(step) {
        verif_case(format!("a={} b={} (binary operations)", show(a), show(b)));
        let (sa, sb) = (build(a), build(b));
        if want("SlotMap::compose_partial") || want("SlotMap::compose") {
            let e: Model = a.iter().filter_map(|(x, y)| b.get(y).map(|z| (*x, *z))).collect();
            let t = sa.compose_partial(&sb);
            if pairs(&t) != mpairs(&e) { fail("SlotMap::compose_partial", "C19:compose_partial.view", format!("a={} b={} got {} expected {}", show(a), show(b), shows(&t), show(&e))); }
            let mut av: Vec<_> = a.values().cloned().collect(); av.sort(); av.dedup();
            if want("SlotMap::compose") && av == b.keys().cloned().collect::<Vec<_>>() {
                let t = sa.compose(&sb);
                if pairs(&t) != mpairs(&e) { fail("SlotMap::compose", "C19:compose.view", format!("a={} b={} got {}", show(a), show(b), shows(&t))); }
            }
        }
        if want("SlotMap::compose_fresh") {
            let before = Slot::fresh();
            let t = sa.compose_fresh(&sb);
            let mut ok = t.keys() == sa.keys();
            let mut fresh_vals = Vec::new();
            for (x, y) in a { match b.get(y) { Some(z) => ok &= t.get(sl(*x)) == Some(sl(*z)), None => { if let Some(f) = t.get(sl(*x)) { ok &= f > before && !fresh_vals.contains(&f); fresh_vals.push(f); } else { ok = false; } } } }
            if !ok { fail("SlotMap::compose_fresh", "C19:compose_fresh", format!("a={} b={} got {}", show(a), show(b), shows(&t))); }
        }
        let agree = a.iter().all(|(k, v)| b.get(k).map(|w| w == v).unwrap_or(true));
        let mut e = a.clone(); for (k, v) in b { e.insert(*k, *v); }
        if want("SlotMap::try_union") {
            let t = sa.try_union(&sb);
            match (&t, agree) {
                (Some(t), true) if pairs(t) == mpairs(&e) => {}
                (None, false) => {}
                _ => fail("SlotMap::try_union", "C19:try_union", format!("a={} b={} got {} expected {}", show(a), show(b), t.as_ref().map(shows).unwrap_or("None".into()), if agree { show(&e) } else { "None".into() })),
            }
        }
        if want("SlotMap::union") && agree {
            let t = sa.union(&sb);
            if pairs(&t) != mpairs(&e) { fail("SlotMap::union", "C19:union.view", format!("a={} b={} got {}", show(a), show(b), shows(&t))); }
        }
    }}
    fails
}
