//! Bounded stand-in for the e-graph level clauses of C05 (matches are represented), C09 (insertion is canonical) and
//! C13 (equalities are never lost, old handles stay usable, slots only shrink, the progress measure is monotone) — NOT a proof.
//! host: src/egraph/mod.rs
//! functions: ematch_all EGraph::add_expr EGraph::find_applied_id
//! Bound: 150 (deep: 2000) pseudo-random histories: one term of depth <= 3 over a lambda/arithmetic language with 3 slot
//! names, all of its subterms inserted and their handles kept, a random subset of 16 rules (binders, commutativity,
//! rules that make slots redundant, native substitution), <= 3 rounds of apply_rewrites, <= 200 nodes; plus 8 hand-written
//! union histories.  After every round:
//! Also 100 (deep: 2000) union histories: 6 terms (some are slot-permuted copies of earlier ones, or two such copies under
//! one node), 8 unions between them, observed after every union.
//!  `ematch_all` / `multi_ematch` (C05): 16 patterns and 12 multi-patterns; every returned substitution binds every
//!    pattern variable, the instantiated pattern is found by `lookup` alone (nothing inserted), every multi-pattern
//!    equation holds between the bound classes, and matching leaves node count / classes / slots untouched;
//!  `EGraph::add_expr` (C09): re-inserting every kept term, and the same term with its free slots renamed, creates
//!    nothing and returns an invocation equal to the kept handle (renamed alike); lookup_rec_expr agrees and changes nothing;
//!  `EGraph::find_applied_id` (C13): every pair of handles that was equal stays equal; every handle can still be
//!    canonicalised, compared and extracted from (the extracted term looks up to the handle); its slot set only shrinks;
//!    the progress measure moves lexicographically in its documented direction.
use crate::*;

define_language! {
    pub enum KL {
        Var(Slot) = "var",
        Lam(Bind<AppliedId>) = "lam",
        App(AppliedId, AppliedId) = "app",
        Let(Bind<AppliedId>, AppliedId) = "let",
        // binders that are not the first slot-carrying component of their node
        LetRev(AppliedId, Bind<AppliedId>) = "letrev",
        Pin(Slot, Bind<AppliedId>) = "pin",
        Nest(Bind<Bind<AppliedId>>) = "nest",
        Add(AppliedId, AppliedId) = "add",
        Mul(AppliedId, AppliedId) = "mul",
        Sub(AppliedId, AppliedId) = "sub",
        F3(AppliedId, AppliedId, AppliedId) = "f3",
        F4(AppliedId, AppliedId, AppliedId, AppliedId) = "f4",
        G(AppliedId) = "g",
        Zero() = "zero",
        One() = "one",
    }
}
type EG = EGraph<KL, ()>;
struct Rng(u64);
impl Rng { fn next(&mut self, n: u64) -> u64 { self.0 ^= self.0 << 13; self.0 ^= self.0 >> 7; self.0 ^= self.0 << 17; self.0 % n } }
/// free slots of a term
fn free_kl(t: &RecExpr<KL>, env: &mut Vec<Slot>, out: &mut Vec<Slot>) {
    let mut under = |bs: &[Slot], c: &RecExpr<KL>, env: &mut Vec<Slot>, out: &mut Vec<Slot>| { for b in bs { env.push(*b); } free_kl(c, env, out); for _ in bs { env.pop(); } };
    match &t.node {
        KL::Var(s) => if !env.contains(s) && !out.contains(s) { out.push(*s); },
        KL::Lam(b) => under(&[b.slot], &t.children[0], env, out),
        KL::Let(b, _) => { under(&[b.slot], &t.children[0], env, out); free_kl(&t.children[1], env, out); }
        KL::LetRev(_, b) => { free_kl(&t.children[0], env, out); under(&[b.slot], &t.children[1], env, out); }
        KL::Pin(s, b) => { if !env.contains(s) && !out.contains(s) { out.push(*s); } under(&[b.slot], &t.children[0], env, out); }
        KL::Nest(b) => under(&[b.slot, b.elem.slot], &t.children[0], env, out),
        _ => for c in &t.children { free_kl(c, env, out); },
    }
}
/// the crate's per-node rule (Language::check): a name bound by a node does not occur free in the same node outside the binder's scope
fn well_formed_kl(t: &RecExpr<KL>) -> bool {
    let fv = |c: &RecExpr<KL>| { let mut o = Vec::new(); free_kl(c, &mut Vec::new(), &mut o); o };
    let ok = match &t.node {
        KL::Let(b, _) => !fv(&t.children[1]).contains(&b.slot),
        KL::LetRev(_, b) => !fv(&t.children[0]).contains(&b.slot),
        KL::Pin(s, b) => *s != b.slot,
        KL::Nest(b) => b.slot != b.elem.slot,
        _ => true,
    };
    ok && t.children.iter().all(well_formed_kl)
}
/// a generated term that satisfies the rule (a few retries, then a plain variable)
fn term(r: &mut Rng, depth: u32, ns: u64) -> String {
    for _ in 0..8 { let t = term_raw(r, depth, ns); if well_formed_kl(&RecExpr::<KL>::parse(&t).unwrap()) { return t; } }
    "(var $1)".to_string()
}
fn term_raw(r: &mut Rng, depth: u32, ns: u64) -> String {
    let term = term_raw;
    // $1..$3 are numeric names; shapes number their slots $0, $1, ..: a user's $1 can meet a shape-level $1
    let v = |r: &mut Rng| format!("(var ${})", r.next(ns + 1));
    if depth > 0 { match r.next(12) {
        0 => return format!("(letrev {} ${} {})", term(r, depth - 1, ns), r.next(ns + 1), term(r, depth - 1, ns)),
        1 => return format!("(pin ${} ${} {})", r.next(ns + 1), r.next(ns + 1), term(r, depth - 1, ns)),
        2 => return format!("(nest ${} ${} {})", r.next(ns + 1), r.next(ns + 1), term(r, depth - 1, ns)),
        _ => {}
    } }
    if depth == 0 { return match r.next(5) { 0 => "zero".into(), 1 => "one".into(), _ => v(r) }; }
    match r.next(9) {
        0 => format!("(mul {} {})", term(r, depth - 1, ns), term(r, depth - 1, ns)),
        1 => format!("(add {} {})", term(r, depth - 1, ns), term(r, depth - 1, ns)),
        2 => format!("(f3 {} {} {})", term(r, depth - 1, ns), v(r), v(r)),
        3 | 4 => format!("(app {} {})", term(r, depth - 1, ns), term(r, depth - 1, ns)),
        5 | 6 => format!("(lam ${} {})", 1 + r.next(ns), term(r, depth - 1, ns)),
        7 => format!("(sub {} {})", term(r, depth - 1, ns), term(r, depth - 1, ns)),
        _ => v(r),
    }
}
const RULES: [(&str, &str, &str); 16] = [
    ("beta", "(app (lam $1 ?b) ?t)", "(let $1 ?b ?t)"),
    ("let-var-same", "(let $1 (var $1) ?e)", "?e"),
    ("sub-self", "(sub ?a ?a)", "zero"),
    ("add-comm", "(add ?a ?b)", "(add ?b ?a)"),
    ("mul-comm", "(mul ?a ?b)", "(mul ?b ?a)"),
    ("add-assoc", "(add ?a (add ?b ?c))", "(add (add ?a ?b) ?c)"),
    ("mul-zero", "(mul ?a zero)", "zero"),
    ("mul-one", "(mul ?a one)", "?a"),
    ("add-zero", "(add ?a zero)", "?a"),
    ("distr", "(mul ?a (add ?b ?c))", "(add (mul ?a ?b) (mul ?a ?c))"),
    ("f3-rot", "(f3 ?a ?b ?c)", "(f3 ?b ?c ?a)"),
    ("f3-forget", "(f3 ?a ?b ?c)", "(f3 ?a ?b zero)"),
    ("forget", "(mul ?a ?b)", "(mul ?a (var $7))"),
    ("subst-beta", "(app (lam $1 ?b) ?t)", "?b[(var $1) := ?t]"),
    ("g-intro", "(sub ?a ?b)", "(g (sub ?a ?b))"),
    ("g-elim", "(g (g ?a))", "?a"),
];
const PATS: [&str; 16] = ["(app (lam $1 ?b) ?t)", "(sub ?a ?a)", "(add ?a (add ?b ?c))", "(mul ?a zero)", "(f3 ?a ?b ?c)", "(f3 ?a ?a ?b)", "(lam $1 ?b)", "(lam $1 (app ?b (var $1)))", "(mul ?a ?b)", "(add ?a ?a)", "(lam $1 (lam $2 ?b))", "?x", "(sub ?a ?b)", "(add ?a (add ?b ?c))", "(f3 ?a ?b ?c)", "(lam $1 (sub ?a ?b))"];
fn lookup_pattern(eg: &EG, pat: &Pattern<KL>, subst: &Subst) -> Result<AppliedId, String> {
    match pat {
        Pattern::PVar(v) => subst.get(v).cloned().ok_or(format!("?{} is not bound", v)),
        Pattern::ENode(n, ch) => {
            let mut n = n.clone();
            let ids: Result<Vec<AppliedId>, String> = ch.iter().map(|c| lookup_pattern(eg, c, subst)).collect();
            let ids = ids?;
            for (r, i) in n.applied_id_occurrences_mut().into_iter().zip(ids) { *r = i; }
            eg.lookup(&n).ok_or(format!("node {:?} of the instantiated pattern is not represented", n))
        }
        Pattern::Subst(..) => Err("subst pattern".into()),
    }
}
fn subterms(re: &RecExpr<KL>, out: &mut Vec<RecExpr<KL>>) { for c in &re.children { subterms(c, out); } out.push(re.clone()); }
fn snapshot(eg: &EG) -> (usize, usize, usize, Vec<(Id, usize, usize)>) {
    let ids = eg.ids();
    (eg.total_number_of_nodes(), ids.len(), eg.progress().number_of_classes, ids.iter().map(|i| (*i, eg.slots(*i).len(), eg.enodes(*i).len())).collect())
}
/// `t` with every binder renamed to a new name (bound occurrences follow, shadowing respected): an alpha-variant
fn alpha_variant(t: &RecExpr<KL>, counter: &mut u32) -> RecExpr<KL> {
    fn rename(t: &RecExpr<KL>, from: Slot, to: Slot) -> RecExpr<KL> {
        match &t.node {
            KL::Var(s) if *s == from => RecExpr { node: KL::Var(to), children: vec![] },
            // an inner binder of the same name shadows: its body is left alone (the other child of `let` is not)
            KL::Lam(b) if b.slot == from => t.clone(),
            KL::LetRev(_, b) if b.slot == from => RecExpr { node: t.node.clone(), children: vec![rename(&t.children[0], from, to), t.children[1].clone()] },
            KL::Pin(s, b) => { let s2 = if *s == from { to } else { *s }; let body = if b.slot == from { t.children[0].clone() } else { rename(&t.children[0], from, to) }; RecExpr { node: KL::Pin(s2, b.clone()), children: vec![body] } }
            KL::Nest(b) if b.slot == from || b.elem.slot == from => t.clone(),
            KL::Let(b, _) if b.slot == from => RecExpr { node: t.node.clone(), children: vec![t.children[0].clone(), rename(&t.children[1], from, to)] },
            _ => RecExpr { node: t.node.clone(), children: t.children.iter().map(|c| rename(c, from, to)).collect() },
        }
    }
    let children: Vec<RecExpr<KL>> = t.children.iter().map(|c| alpha_variant(c, counter)).collect();
    match &t.node {
        KL::Lam(b) => { *counter += 1; let nw = Slot::named(&format!("bound{}", counter)); RecExpr { node: KL::Lam(Bind { slot: nw, elem: b.elem.clone() }), children: vec![rename(&children[0], b.slot, nw)] } }
        KL::Let(b, e) => { *counter += 1; let nw = Slot::named(&format!("bound{}", counter)); RecExpr { node: KL::Let(Bind { slot: nw, elem: b.elem.clone() }, e.clone()), children: vec![rename(&children[0], b.slot, nw), children[1].clone()] } }
        _ => RecExpr { node: t.node.clone(), children },
    }
}
/// all terms obtained from `t` by permuting the children of ONE inner node (at most 4 children), with the permuted sub-term
fn child_permuted_variants(t: &RecExpr<KL>) -> Vec<(RecExpr<KL>, RecExpr<KL>, RecExpr<KL>)> {
    fn perms(n: usize) -> Vec<Vec<usize>> { if n == 0 { return vec![vec![]]; } let mut out = Vec::new(); for p in perms(n - 1) { for i in 0..n { let mut q = p.clone(); q.insert(i, n - 1); out.push(q); } } out }
    let mut out = Vec::new();
    let k = t.children.len();
    // binders are left alone: permuting below a binder node would have to move the bound slot too
    if k >= 2 && k <= 4 && !matches!(t.node, KL::Lam(..) | KL::Let(..) | KL::LetRev(..) | KL::Pin(..) | KL::Nest(..)) {
        for p in perms(k) {
            if (0..k).all(|i| p[i] == i) { continue; }
            let v = RecExpr { node: t.node.clone(), children: p.iter().map(|i| t.children[*i].clone()).collect() };
            out.push((v.clone(), t.clone(), v));
        }
    }
    for (i, c) in t.children.iter().enumerate() {
        for (whole, sub, subv) in child_permuted_variants(c) {
            let mut ch = t.children.clone(); ch[i] = whole;
            out.push((RecExpr { node: t.node.clone(), children: ch }, sub, subv));
        }
    }
    out
}
fn rename(t: &str) -> String { let mut s = t.to_string(); for k in (0..=9).rev() { s = s.replace(&format!("${})", k), &format!("$1{})", k)); s = s.replace(&format!("${} ", k), &format!("$1{} ", k)); } s }

fn multi_pats() -> Vec<&'static str> {
    vec!["?x == (mul ?a ?b), ?b == zero", "?o == (add ?a ?b), ?b == (sub ?a ?a)", "?o == (f3 ?a ?b ?c), ?a == (var $1)", "?o == (app ?f ?t), ?f == (lam $1 ?b)",
         // two different pattern slots: they must not be identified with each other
         "?o == (sub ?a ?b), ?a == (var $1), ?b == (var $2)", "?o == (add ?a ?b), ?b == (var $2), ?a == (var $1)", "?o == (lam $1 ?b), ?b == (var $2)",
         "?o == (mul ?a ?b), ?a == (var $1), ?b == (mul ?c ?d), ?c == (var $2)", "?o == (lam $1 ?b), ?b == (app ?f ?x), ?f == (var $1), ?x == (var $2)",
         // a node with THREE children, two of them bound by earlier equations, all over one shared slot: the slot unifications made
         // while its children are visited form a chain (y1 -> y2 -> y3) that the third child has to follow to its end (seed C05-g)
         "?p == (add ?a ?z), ?q == (mul ?b ?y), ?r == (f3 ?a ?b ?c)", "?p == (add ?a ?z), ?b == (g ?v), ?v == (var $9), ?r == (f3 ?a ?b ?c)",
         "?p == (add ?a ?z), ?q == (mul ?b ?y), ?s == (sub ?c ?w), ?r == (f4 ?a ?b ?c ?d)"]
}

struct Hist { eg: EG, subs: Vec<RecExpr<KL>>, handles: Vec<AppliedId>, equal_pairs: Vec<(usize, usize)>, slot_counts: Vec<usize>, prog: ProgressMeasure }

fn observe(what: &str, h: &mut Hist, desc: &str) -> Result<(), String> {
    let eg = &mut h.eg;
    if what == "EGraph::find_applied_id" {
        for (a, b) in &h.equal_pairs { if !eg.eq(&h.handles[*a], &h.handles[*b]) { return Err(format!("C13:history.equalities-kept {}: {} and {} were equal and are not any more", desc, h.subs[*a], h.subs[*b])); } }
        for a in 0..h.handles.len() { for b in (a + 1)..h.handles.len() { if eg.eq(&h.handles[a], &h.handles[b]) && !h.equal_pairs.contains(&(a, b)) { h.equal_pairs.push((a, b)); } } }
        let extractor = Extractor::<KL, AstSize>::new(eg, AstSize);
        for (k, hd) in h.handles.iter().enumerate() {
            let f = eg.find_applied_id(hd);
            if f.slots().len() > h.slot_counts[k] { return Err(format!("C13:history.slots-shrink {}: the class of {} has more slots than before", desc, h.subs[k])); }
            h.slot_counts[k] = f.slots().len();
            let ex = extractor.extract(hd, eg);
            match lookup_rec_expr(&ex, eg) {
                None => return Err(format!("C13:history.handles-usable {}: the term {} extracted from the old handle of {} is not in the e-graph", desc, ex, h.subs[k])),
                Some(b) => if !eg.eq(hd, &b) { return Err(format!("C13:history.handles-usable {}: the term {} extracted from the old handle of {} denotes {:?}, not {:?}", desc, ex, h.subs[k], b, hd)); }
            }
        }
        let p2 = eg.progress();
        let p = &h.prog;
        let ok = if p2.number_of_classes != p.number_of_classes { p2.number_of_classes > p.number_of_classes }
            else if p2.number_of_live_classes != p.number_of_live_classes { p2.number_of_live_classes < p.number_of_live_classes }
            else if p2.sum_of_slots != p.sum_of_slots { p2.sum_of_slots < p.sum_of_slots }
            else { p2.sum_of_symmetries >= p.sum_of_symmetries };
        if !ok { return Err(format!("C13:history.progress-monotone {}: ({}, {}, {}, {}) -> ({}, {}, {}, {})", desc, p.number_of_classes, p.number_of_live_classes, p.sum_of_slots, p.sum_of_symmetries, p2.number_of_classes, p2.number_of_live_classes, p2.sum_of_slots, p2.sum_of_symmetries)); }
        h.prog = p2;
    }
    if what == "ematch_all" {
        for p in PATS {
            let pat = Pattern::<KL>::parse(p).unwrap();
            let before = snapshot(eg);
            let ms = ematch_all(eg, &pat);
            if before != snapshot(eg) { return Err(format!("C05:ematch.pure {}: matching {} changed the e-graph", desc, p)); }
            for m in ms { if let Err(e) = lookup_pattern(eg, &pat, &m) { return Err(format!("C05:ematch.represented {}: pattern {} subst {:?}: {}", desc, p, m, e)); } }
        }
        for p in multi_pats() {
            let mp = MultiPattern::<KL>::parse(p).unwrap();
            let before = snapshot(eg);
            let ms = multi_ematch(&mp, eg);
            if before != snapshot(eg) { return Err(format!("C05:multi_ematch.pure {}: matching {} changed the e-graph", desc, p)); }
            for m in ms { for (v, n, ch) in &mp.pats {
                let mut n = n.clone();
                let Some(lhs) = m.get(v) else { return Err(format!("C05:multi_ematch.binds-all {}: multi-pattern {} subst {:?}: ?{} is not bound", desc, p, m, v)); };
                let mut ids = Vec::new();
                for c in ch { match m.get(c) { Some(x) => ids.push(x.clone()), None => return Err(format!("C05:multi_ematch.binds-all {}: multi-pattern {} subst {:?}: ?{} is not bound", desc, p, m, c)) } }
                for (r, i) in n.applied_id_occurrences_mut().into_iter().zip(ids) { *r = i; }
                match eg.lookup(&n) {
                    None => return Err(format!("C05:multi_ematch.represented {}: multi-pattern {} subst {:?}: node {:?} is not represented", desc, p, m, n)),
                    Some(x) => if !eg.eq(&x, lhs) { return Err(format!("C05:multi_ematch.equation-holds {}: multi-pattern {} subst {:?}: ?{} is {:?} but the node {:?} is in {:?}", desc, p, m, v, lhs, n, x)); }
                }
            }}
        }
    }
    if what == "EGraph::add_expr" {
        for (k, s) in h.subs.iter().enumerate() {
            let before = snapshot(eg);
            match lookup_rec_expr(s, eg) {
                None => return Err(format!("C09:lookup.agrees {}: lookup of the inserted term {} fails", desc, s)),
                Some(l) => {
                    if !eg.eq(&l, &h.handles[k]) { return Err(format!("C09:lookup.agrees {}: lookup of {} gives {:?}, insertion gave {:?}", desc, s, l, h.handles[k])); }
                    // "the returned invocation's slots are the term's free slots minus those proven redundant": its parameter
                    // slots are exactly the (remaining) slots of the class it names
                    if eg.is_alive(l.id) && l.m.keys() != eg.slots(l.id) { return Err(format!("C09:lookup.slots {}: lookup of {} gives {:?}, whose parameter slots are not the class's slots {:?} (a slot proven redundant is still passed)", desc, s, l, eg.slots(l.id))); }
                }
            }
            if before != snapshot(eg) { return Err(format!("C09:lookup.pure {}: lookup of {} changed the e-graph", desc, s)); }
            let x = eg.add_expr(s.clone());
            if eg.is_alive(x.id) && x.m.keys() != eg.slots(x.id) { return Err(format!("C09:add.slots {}: re-inserting {} gives {:?}, whose parameter slots are not the class's slots {:?}", desc, s, x, eg.slots(x.id))); }
            if before != snapshot(eg) { return Err(format!("C09:add.known-creates-nothing {}: re-inserting {} changed the e-graph", desc, s)); }
            if !eg.eq(&x, &h.handles[k]) { return Err(format!("C09:add.known-creates-nothing {}: re-inserting {} gives {:?}, the first insertion gave {:?}", desc, s, x, h.handles[k])); }
            // NODE level, through OLD handles (seed C09-g): the top node of the kept term with the handles that the insertion of its
            // child terms returned - possibly long ago: their classes may have been merged away or may have lost slots since -
            // is represented: `lookup` finds it (and changes nothing), `add` creates nothing, both denote the kept handle
            if !s.children.is_empty() {
                let kids: Option<Vec<AppliedId>> = s.children.iter().map(|c| h.subs.iter().position(|t| t == c).map(|j| h.handles[j].clone())).collect();
                if let Some(kids) = kids {
                    let mut n = s.node.clone();
                    for (r, i) in n.applied_id_occurrences_mut().into_iter().zip(kids) { *r = i; }
                    let before = snapshot(eg);
                    match eg.lookup(&n) {
                        None => return Err(format!("C09:lookup.agrees {}: lookup of the node {:?} (the top node of the inserted term {} over the handles its children were inserted with) fails", desc, n, s)),
                        Some(l) => if !eg.eq(&l, &h.handles[k]) { return Err(format!("C09:lookup.agrees {}: lookup of the node {:?} gives {:?}, the insertion of {} gave {:?}", desc, n, l, s, h.handles[k])); }
                    }
                    if before != snapshot(eg) { return Err(format!("C09:lookup.pure {}: lookup of the node {:?} changed the e-graph", desc, n)); }
                    let x = eg.add(n.clone());
                    if before != snapshot(eg) { return Err(format!("C09:add.known-creates-nothing {}: adding the node {:?} (top node of the inserted term {} over old handles) changed the e-graph", desc, n, s)); }
                    if !eg.eq(&x, &h.handles[k]) { return Err(format!("C09:add.known-creates-nothing {}: adding the node {:?} gives {:?}, the insertion of {} gave {:?}", desc, n, x, s, h.handles[k])); }
                }
            }
            let rn = rename(&s.to_string());
            let x2 = eg.add_expr(RecExpr::<KL>::parse(&rn).unwrap());
            if before != snapshot(eg) { return Err(format!("C09:add.renaming-equivariant {}: inserting the renamed term {} changed the e-graph", desc, rn)); }
            let hd = eg.find_applied_id(&h.handles[k]);
            let hm: SlotMap = hd.m.iter().map(|(a, b)| { let nm = format!("{}", b); let nb = if nm.starts_with("$f") || nm.len() != 2 { b } else { Slot::named(&format!("1{}", &nm[1..])) }; (a, nb) }).collect();
            let h2 = AppliedId::new(hd.id, hm);
            if !eg.eq(&x2, &h2) { return Err(format!("C09:add.renaming-equivariant {}: inserting the renamed term {} gives {:?}, expected {:?}", desc, rn, x2, h2)); }
            // alpha-renamed: every binder gets a new name
            let mut ctr = 0u32;
            let av = alpha_variant(s, &mut ctr);
            if ctr > 0 {
                let before = snapshot(eg);
                match lookup_rec_expr(&av, eg) {
                    None => return Err(format!("C09:lookup.agrees {}: lookup of {}, an alpha-variant of the inserted {}, fails", desc, av, s)),
                    Some(l) => if !eg.eq(&l, &h.handles[k]) { return Err(format!("C09:lookup.agrees {}: lookup of the alpha-variant {} of {} gives {:?}, insertion gave {:?}", desc, av, s, l, h.handles[k])); }
                }
                let x3 = eg.add_expr(av.clone());
                if before != snapshot(eg) { return Err(format!("C09:add.known-creates-nothing {}: inserting {}, an alpha-variant of the inserted {}, changed the e-graph", desc, av, s)); }
                if !eg.eq(&x3, &h.handles[k]) { return Err(format!("C09:add.known-creates-nothing {}: inserting the alpha-variant {} of {} gives {:?}, expected {:?}", desc, av, s, x3, h.handles[k])); }
            }
            // equal through earlier unions of subterms: a sub-term with permuted children that the e-graph already
            // holds and reports equal to the original sub-term; then the whole variant is represented (congruence)
            for (whole, sub, subv) in child_permuted_variants(s) {
                if whole.children.len() == sub.children.len() && whole.node == subv.node && whole.children == subv.children { continue; } // the top node itself: nothing above it
                let (Some(a), Some(b)) = (lookup_rec_expr(&sub, eg), lookup_rec_expr(&subv, eg)) else { continue };
                if !eg.eq(&a, &b) { continue; }
                let before = snapshot(eg);
                match lookup_rec_expr(&whole, eg) {
                    None => return Err(format!("C09:lookup.agrees {}: {} equals {} in the e-graph, so {} is represented (it equals the inserted {}), but lookup_rec_expr does not find it", desc, subv, sub, whole, s)),
                    Some(l) => if !eg.eq(&l, &h.handles[k]) { return Err(format!("C09:lookup.agrees {}: lookup of {} (equal to the inserted {} through the symmetry of {}) gives {:?}, expected {:?}", desc, whole, s, sub, l, h.handles[k])); }
                }
                let x = eg.add_expr(whole.clone());
                if before != snapshot(eg) { return Err(format!("C09:add.known-creates-nothing {}: inserting {} (equal to the inserted {} because {} = {}) changed the e-graph: {:?} -> {:?}", desc, whole, s, sub, subv, (before.0, before.1, before.2), { let n = snapshot(eg); (n.0, n.1, n.2) })); }
                if !eg.eq(&x, &h.handles[k]) { return Err(format!("C09:add.known-creates-nothing {}: inserting {} gives {:?}, the first insertion of the equal term {} gave {:?}", desc, whole, x, s, h.handles[k])); }
                // NEW parents inserted now (after the symmetry is known): (g (g s)) and then (g (g whole)) - the second one is
                // represented as soon as the first is in, must create nothing and must give an equal invocation
                let wrap = |t: &RecExpr<KL>| RecExpr::<KL>::parse(&format!("(g (g {}))", t)).unwrap();
                let w1 = eg.add_expr(wrap(s));
                let mid = snapshot(eg);
                let w2 = eg.add_expr(wrap(&whole));
                if mid != snapshot(eg) { return Err(format!("C09:add.known-creates-nothing {}: (g (g {})) was inserted; inserting (g (g {})), which equals it because {} = {}, changed the e-graph", desc, s, whole, sub, subv)); }
                if !eg.eq(&w1, &w2) { return Err(format!("C09:add.known-creates-nothing {}: the new terms (g (g {})) and (g (g {})) are equal ({} = {}) but their invocations {:?} and {:?} are not", desc, s, whole, sub, subv, w1, w2)); }
            }
        }
    }
    Ok(())
}

fn start(terms: &[RecExpr<KL>]) -> Hist {
    let mut eg = EG::default();
    let mut subs = Vec::new();
    for t in terms { subterms(t, &mut subs); }
    let handles: Vec<AppliedId> = subs.iter().map(|s| eg.add_expr(s.clone())).collect();
    let slot_counts = handles.iter().map(|h| eg.find_applied_id(h).slots().len()).collect();
    let prog = eg.progress();
    Hist { eg, subs, handles, equal_pairs: Vec::new(), slot_counts, prog }
}

fn hand_written() -> Vec<(Vec<&'static str>, Vec<(usize, usize)>)> {
    vec![
        (vec!["(mul (var $1) (var $2))", "(mul (var $2) (var $1))", "(mul (var $1) (var $3))"], vec![(0, 1), (0, 2)]),
        // one slot shared by the three (four) children of one node, each child also reachable through a node of its own (seed C05-g)
        (vec!["(add (var $1) zero)", "(mul (g (var $1)) zero)", "(f3 (var $1) (g (var $1)) (g (g (var $1))))", "(sub (g (g (var $1))) one)", "(f4 (var $1) (g (var $1)) (g (g (var $1))) (g (g (g (var $1)))))"], vec![]),
        (vec!["(f3 (var $1) (var $2) (var $3))", "(f3 (var $2) (var $3) (var $1))"], vec![(0, 1)]),
        (vec!["(sub (var $1) (var $1))", "(g (g zero))", "(add (sub (var $2) (var $2)) one)"], vec![(0, 1)]),
        (vec!["(lam $1 (mul (var $1) (var $2)))", "(lam $1 (mul (var $1) (var $3)))"], vec![(0, 1)]),
        (vec!["(g (f3 (var $1) (var $2) (var $3)))", "(f3 (var $3) (var $1) (var $2))"], vec![(0, 1)]),
        (vec!["(app (lam $1 (var $1)) (var $2))", "(var $2)", "(app (lam $3 (var $3)) one)", "one"], vec![(0, 1), (2, 3)]),
        (vec!["(add (var $1) (var $2))", "(add (var $2) (var $1))", "(add (var $1) zero)", "(var $1)"], vec![(0, 1), (2, 3)]),
        (vec!["(mul (var $1) zero)", "zero", "(mul (var $2) (var $3))", "(mul (var $3) (var $2))"], vec![(0, 1), (2, 3)]),
        // a symmetric class loses a slot outside the orbit of its symmetry: the symmetry must survive
        (vec!["(f3 (var $1) (var $2) (var $3))", "(f3 (var $2) (var $1) (var $3))", "(f3 (var $1) (var $2) zero)"], vec![(0, 1), (0, 2)]),
        // a class made symmetric by unions whose CHILD becomes symmetric later (its e-node is re-processed and yields a new
        // permutation: the old symmetries must stay)
        (vec!["(f3 (mul (var $1) (var $2)) (var $3) (var $4))", "(f3 (mul (var $1) (var $2)) (var $4) (var $3))", "(mul (var $1) (var $2))", "(mul (var $2) (var $1))", "(g (f3 (mul (var $1) (var $2)) (var $3) (var $4)))"], vec![(0, 1), (2, 3)]),
        (vec!["(f4 (add (var $1) (var $2)) (var $3) (var $4) (var $1))", "(f4 (add (var $1) (var $2)) (var $4) (var $3) (var $1))", "(add (var $1) (var $2))", "(add (var $2) (var $1))"], vec![(0, 1), (2, 3)]),
        // a node with a SYMMETRIC child whose slots are tied to something outside the node (a sibling, a binder above it, a
        // second such node in the same match)
        (vec!["(add (var $1) (var $2))", "(add (var $2) (var $1))", "(app (lam $1 (add (var $1) (var $2))) (var $2))", "(sub (add (var $1) (var $2)) (var $1))", "(mul (add (var $1) (var $2)) (add (var $2) (var $3)))", "(lam $1 (add (var $1) (var $2)))", "(lam $3 (sub (add (var $3) (var $2)) (var $3)))", "(f3 (add (var $1) (var $2)) (var $2) (add (var $3) (var $1)))"], vec![(0, 1)]),
        (vec!["(mul (var $1) (var $2))", "(mul (var $2) (var $1))", "(lam $1 (lam $2 (sub (mul (var $1) (var $2)) (var $2))))", "(app (lam $1 (mul (var $1) (var $3))) (mul (var $3) (var $2)))", "(add (mul (var $1) (var $2)) (add (mul (var $2) (var $3)) (var $1)))"], vec![(0, 1)]),
        // the same slot in two places where a multi-pattern names two different slots
        (vec!["(sub (var $1) (var $1))", "(sub (var $1) (var $2))", "(lam $1 (var $1))", "(lam $1 (var $2))", "(add (var $3) (var $3))", "(mul (var $1) (mul (var $1) (var $2)))", "(lam $3 (app (var $3) (var $3)))", "(lam $3 (app (var $3) (var $1)))"], vec![(0, 0)]),
        // shadowing binders, the same name bound twice, a bound name that is also free elsewhere, repeated free slots
        (vec!["(lam $1 (lam $1 (var $1)))", "(lam $1 (app (var $1) (lam $1 (var $1))))", "(app (lam $1 (var $1)) (var $1))", "(app (lam $1 (var $1)) (lam $1 (app (var $1) (var $2))))", "(lam $2 (lam $1 (app (var $1) (var $2))))", "(lam $1 (lam $2 (app (var $2) (var $1))))", "(add (var $1) (var $1))", "(lam $3 (add (var $3) (add (var $1) (var $3))))"], vec![(0, 0)]),
        // a child whose group has elements that are neither the identity nor one of the stored generators (S3, Klein
        // four-group), below a parent with an asymmetric sibling over the same slots
        (vec!["(f3 (var $1) (var $2) (var $3))", "(f3 (var $2) (var $1) (var $3))", "(f3 (var $2) (var $3) (var $1))", "(add (f3 (var $1) (var $2) (var $3)) (sub (var $1) (sub (var $2) (var $3))))"], vec![(0, 1), (0, 2)]),
        (vec!["(f4 (var $1) (var $2) (var $3) (var $4))", "(f4 (var $2) (var $1) (var $3) (var $4))", "(f4 (var $1) (var $2) (var $4) (var $3))", "(mul (f4 (var $1) (var $2) (var $3) (var $4)) (sub (sub (var $1) (var $2)) (sub (var $3) (var $4))))"], vec![(0, 1), (0, 2)]),
        (vec!["(f3 (var $1) (var $2) (var $3))", "(f3 (var $3) (var $1) (var $2))", "(f3 (var $1) (var $3) (var $2))", "(app (f3 (var $1) (var $2) (var $3)) (app (var $1) (app (var $2) (var $3))))", "(lam $1 (sub (f3 (var $1) (var $2) (var $3)) (sub (var $2) (var $3))))"], vec![(0, 1), (0, 2)]),
        // a symmetric class that is then merged INTO a bigger class (it is the deprecated side of move_to)
        (vec!["(mul (var $1) (var $2))", "(mul (var $2) (var $1))", "(g (g (add (var $1) (var $2))))", "(add (var $1) (var $2))"], vec![(0, 1), (0, 3)]),
        (vec!["(f3 (var $1) (var $2) (var $3))", "(f3 (var $2) (var $3) (var $1))", "(g (app (var $1) (app (var $2) (var $3))))", "(sub (app (var $1) (app (var $2) (var $3))) one)", "(app (var $1) (app (var $2) (var $3)))"], vec![(0, 1), (0, 4)]),
        (vec!["(f3 (var $1) (var $2) (var $3))", "(f3 (var $2) (var $1) (var $3))", "(g (g (f3 (var $1) (var $2) (var $3))))", "(add (var $1) (add (var $2) (var $3)))", "(g (add (var $1) (add (var $2) (var $3))))"], vec![(0, 1), (3, 0)]),
        // the same class under two different argument orders below one node (non-linear patterns must not confuse them)
        (vec!["(sub (mul (var $1) (var $2)) (mul (var $2) (var $1)))", "(add (f3 (var $1) (var $2) (var $3)) (f3 (var $2) (var $1) (var $3)))", "(f3 (mul (var $1) (var $2)) (mul (var $2) (var $1)) (var $1))"], vec![(0, 0)]),
        (vec!["(lam $1 (sub (mul (var $1) (var $2)) (mul (var $2) (var $1))))", "(add (mul (var $1) (var $2)) (mul (var $2) (var $1)))", "(sub (app (var $1) (var $2)) (app (var $2) (var $1)))"], vec![(1, 1)]),
    ]
}

pub fn run(only: &[String]) -> Vec<String> {
    let mut fails = Vec::new();
    let deep = std::env::var("VERIF_BOUNDED_DEEP").is_ok();
    for what in ["ematch_all", "EGraph::add_expr", "EGraph::find_applied_id"] {
        if !(only.is_empty() || only.iter().any(|x| x == what)) { continue; }
        let mut n = 0;
        let mut report = |e: String, mut fails: &mut Vec<String>| { if n < 3 { n += 1; let (c, m) = e.split_once(' ').unwrap(); fails.push(format!("FAIL {} {} {}", what, c, m)); } };
        for (adds, unions) in hand_written() {
            let desc = format!("history add {:?}; union {:?}", adds, unions);
            verif_case(format!("{}: {}", what, desc));
            let terms: Vec<RecExpr<KL>> = adds.iter().map(|t| RecExpr::<KL>::parse(t).unwrap()).collect();
            let mut h = start(&terms);
            // the handles of the top-level terms are the last handle of each term's subterm block
            let mut tops = Vec::new(); { let mut k = 0; for t in &terms { let mut v = Vec::new(); subterms(t, &mut v); k += v.len(); tops.push(k - 1); } }
            // a history without unions is observed once, as inserted
            if unions.is_empty() { if let Err(e) = observe(what, &mut h, &desc) { report(e, &mut fails); } }
            for (a, b) in &unions {
                let (x, y) = (h.handles[tops[*a]].clone(), h.handles[tops[*b]].clone());
                h.eg.union(&x, &y);
                if let Err(e) = observe(what, &mut h, &desc) { report(e, &mut fails); break; }
            }
        }
        let seeds: u64 = if deep { verif_scale(2000) } else { 150 };
        for seed in 1..=seeds {
            let mut r = Rng(seed.wrapping_mul(0x9E3779B97F4A7C15).wrapping_add(1));
            let t = term(&mut r, 3, 3);
            let mask = r.next(1 << 16);
            let used: Vec<&str> = (0..16).filter(|i| mask & (1 << i) != 0).map(|i| RULES[i].0).collect();
            let rws: Vec<Rewrite<KL, ()>> = (0..16).filter(|i| mask & (1 << i) != 0).map(|i| Rewrite::new(RULES[i].0, RULES[i].1, RULES[i].2)).collect();
            let mut h = start(&[RecExpr::<KL>::parse(&t).unwrap()]);
            for round in 0..3 {
                if h.eg.total_number_of_nodes() > 200 { break; }
                let desc = format!("term {} rules {:?} after round {} (seed {})", t, used, round, seed);
                verif_case(format!("{}: {}", what, desc));
                apply_rewrites(&mut h.eg, &rws);
                if let Err(e) = observe(what, &mut h, &desc) { report(e, &mut fails); break; }
            }
        }
        // union histories: 6 terms, some of them slot-permuted copies of earlier ones or pairs of such copies under one
        // node, 8 unions between the top-level handles
        let useeds: u64 = if deep { verif_scale(2000) } else { 100 };
        for seed in 1..=useeds {
            let mut r = Rng(seed.wrapping_mul(0xD1B54A32D192ED03).wrapping_add(7));
            let mut adds: Vec<String> = Vec::new();
            for _ in 0..6 {
                let k = r.next(6);
                let t = if k == 0 && !adds.is_empty() { permute_slots(&adds[r.next(adds.len() as u64) as usize], &mut r) }
                    else if k == 1 { let a = term(&mut r, 1, 3); let b = permute_slots(&a, &mut r); let op = ["sub", "add", "mul", "app"][r.next(4) as usize]; format!("({} {} {})", op, a, b) }
                    else { term(&mut r, 2, 3) };
                adds.push(t);
            }
            let unions: Vec<(usize, usize)> = (0..8).map(|_| (r.next(6) as usize, r.next(6) as usize)).collect();
            let desc = format!("history (seed {}) add {:?}; union {:?}", seed, adds, unions);
            let terms: Vec<RecExpr<KL>> = adds.iter().map(|t| RecExpr::<KL>::parse(t).unwrap()).collect();
            let mut h = start(&terms);
            let mut tops = Vec::new(); { let mut k = 0; for t in &terms { let mut v = Vec::new(); subterms(t, &mut v); k += v.len(); tops.push(k - 1); } }
            if let Err(e) = observe(what, &mut h, &desc) { report(e, &mut fails); continue; }
            for (a, b) in &unions {
                verif_case(format!("{}: {} at union {} ~ {}", what, desc, a, b));
                let (x, y) = (h.handles[tops[*a]].clone(), h.handles[tops[*b]].clone());
                h.eg.union(&x, &y);
                if let Err(e) = observe(what, &mut h, &desc) { report(e, &mut fails); break; }
            }
        }
    }
    fails
}

/// the term with its slot names $1..$3 permuted (a different invocation of the same class)
fn permute_slots(t: &str, r: &mut Rng) -> String {
    let perms = [[2, 1, 3], [3, 2, 1], [1, 3, 2], [2, 3, 1], [3, 1, 2]];
    let p = perms[r.next(5) as usize];
    let mut s = t.replace("$1", "$A").replace("$2", "$B").replace("$3", "$C");
    s = s.replace("$A", &format!("${}", p[0])).replace("$B", &format!("${}", p[1])).replace("$C", &format!("${}", p[2]));
    s
}
