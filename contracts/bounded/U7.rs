//! Bounded stand-in / failing-input search for unit U7 (pattern parser) — NOT a proof.
//! host: src/parse.rs
//! functions: Pattern::parse RecExpr::parse is_term parse_nested_syntax_elem parse_pattern parse_pattern_nosubst pattern_to_re
//! Bound: every token sequence of length <= 5 over an 11-token alphabet, for one language (var/app/lam/number payload);
//! every prefix (at character boundaries) of 14 valid, malformed and non-ASCII texts through Pattern::parse / RecExpr::parse
//! (this also stands in for tokenize / crop_ident / ident_char when an edit moves them outside Verus's subset); print -> parse
//! round trip of 9 patterns with chained and nested substitutions; value -> print -> parse round trip of a term and a pattern over
//! 15 x 15 slot names (non-canonical numerals, signed numerals, f<n> forms, names).
use crate::*;
use super::*;

define_language! {
    pub enum BL {
        Var(Slot) = "var",
        App(AppliedId, AppliedId) = "app",
        Lam(Bind<AppliedId>) = "lam",
        Num(u32),
    }
}

fn arity_ok(p: &Pattern<BL>) -> bool {
    match p {
        Pattern::ENode(n, cs) => n.applied_id_occurrences().len() == cs.len() && cs.iter().all(arity_ok),
        Pattern::PVar(_) => true,
        Pattern::Subst(a, b, c) => arity_ok(a) && arity_ok(b) && arity_ok(c),
    }
}
fn re_ok(e: &RecExpr<BL>) -> bool { e.node.applied_id_occurrences().len() == e.children.len() && e.children.iter().all(re_ok) }

fn alphabet() -> Vec<Token> {
    vec![Token::LParen, Token::RParen, Token::LBracket, Token::RBracket, Token::ColonEquals,
         Token::Ident("app".into()), Token::Ident("var".into()), Token::Ident("lam".into()), Token::Ident("7".into()),
         Token::Slot(Slot::named("x")), Token::PVar("a".into())]
}

pub fn run(only: &[String]) -> Vec<String> {
    let mut fails: Vec<String> = Vec::new();
    let want = |f: &str| only.is_empty() || only.iter().any(|x| x == f);
    std::panic::set_hook(Box::new(|_| {}));
    let al = alphabet();
    let n = al.len();
    let mut count = vec![0usize; 8];
    if want("parse_pattern") || want("parse_pattern_nosubst") || want("parse_nested_syntax_elem") {
        // thorough tier (VERIF_BOUNDED_DEEP): sequences up to length 6
        let maxlen = if std::env::var("VERIF_BOUNDED_DEEP").is_ok() { 6usize } else { 5 };
        for len in 0..=maxlen {
            let total = n.pow(len as u32);
            for code in 0..total {
                let mut c = code; let mut toks = Vec::new();
                for _ in 0..len { toks.push(al[c % n].clone()); c /= n; }
                let t2 = toks.clone();
                let fns: [(&str, Box<dyn Fn(&[Token]) -> Option<(bool, usize)> + std::panic::RefUnwindSafe>); 3] = [
                    ("parse_pattern", Box::new(|t: &[Token]| parse_pattern::<BL>(t).ok().map(|(p, r)| (arity_ok(&p), r.len())))),
                    ("parse_pattern_nosubst", Box::new(|t: &[Token]| parse_pattern_nosubst::<BL>(t).ok().map(|(p, r)| (arity_ok(&p), r.len())))),
                    ("parse_nested_syntax_elem", Box::new(|t: &[Token]| parse_nested_syntax_elem::<BL>(t).ok().map(|(e, r)| (match e { NestedSyntaxElem::Pattern(p) => arity_ok(&p), _ => true }, r.len())))),
                ];
                for (i, (name, f)) in fns.iter().enumerate() {
                    if !want(name) || count[i] >= 3 { continue; }
                    match std::panic::catch_unwind(|| f(&t2)) {
                        Err(_) => { count[i] += 1; fails.push(format!("FAIL {} C18:{}.shorter tokens={:?} -> panic", name, name, toks)); }
                        Ok(Some((ok, rest))) => {
                            if !ok { count[i] += 1; fails.push(format!("FAIL {} C18:{}.arity tokens={:?} -> node with wrong number of children", name, name, toks)); }
                            else if rest >= toks.len() { count[i] += 1; fails.push(format!("FAIL {} C18:{}.shorter tokens={:?} -> consumed nothing", name, name, toks)); }
                        }
                        Ok(None) => {}
                    }
                }
            }
        }
    }
    // text level (tokenizer + parser): every prefix (at char boundaries) of valid, malformed and non-ASCII texts
    let texts = ["(app (var $x) ?y)[?a := (lam $z (var $z))]", "(lam $x (app (var $x) 7))", "(var $x (var $y))", "(app ?a ?b ?c)", "?x", "7",
                 "?b[?x := (app ?a ?c ?d)]", "(lam $y ?t)[(var $x ?y) := ?z]", "(app ?\u{3bb} ?y)", "(var $\u{e9})", "(caf\u{e9} ?x ?y)", "\u{3bb}\u{a0}x (", "?a[$x := ?\u{1d4b3}]", "( : $ ? := ]"];
    let re_label: String = only.iter().find(|x| ["is_term", "pattern_to_re"].contains(&x.as_str())).cloned().unwrap_or("RecExpr::parse".to_string());
    let tok_fns = ["tokenize", "crop_ident", "ident_char"];
    let tok_label: Option<String> = only.iter().find(|x| tok_fns.contains(&x.as_str())).cloned();
    for t in texts {
        for cut in 0..=t.len() {
            if !t.is_char_boundary(cut) { continue; }
            let s = &t[..cut];
            if (want("Pattern::parse") || tok_label.is_some()) && count[3] < 3 {
                let label = tok_label.clone().unwrap_or("Pattern::parse".to_string());
                let clause = if tok_label.is_some() { "C18:tokenize.total" } else { "C18:Pattern_parse.arity" };
                match std::panic::catch_unwind(|| Pattern::<BL>::parse(s).ok().map(|p| arity_ok(&p))) {
                    Err(_) => { count[3] += 1; fails.push(format!("FAIL {} {} text={:?} -> panic", label, clause, s)); }
                    Ok(Some(false)) => { count[3] += 1; fails.push(format!("FAIL {} {} text={:?} -> node with wrong number of children", label, clause, s)); }
                    _ => {}
                }
            }
            if (want("RecExpr::parse") || want("is_term") || want("pattern_to_re")) && count[4] < 3 {
                match std::panic::catch_unwind(|| RecExpr::<BL>::parse(s).ok().map(|p| re_ok(&p))) {
                    Err(_) => { count[4] += 1; fails.push(format!("FAIL {} C18:RecExpr_parse.arity text={:?} -> panic", re_label, s)); }
                    Ok(Some(false)) => { count[4] += 1; fails.push(format!("FAIL {} C18:RecExpr_parse.arity text={:?} -> node with wrong number of children", re_label, s)); }
                    _ => {}
                }
            }
        }
    }
    // print -> parse round trip on patterns and terms, including chained and nested substitutions
    let rt_texts = ["?b[(var $x) := ?t][(var $y) := ?u]", "(app ?b[?x := ?t][?y := ?u] ?c)", "?b[?x := ?t][?y := ?u][?z := ?w]", "?b[?x[?p := ?q] := ?t[?r := ?s]][?y := ?u]",
                    "(lam $x (app (var $x) ?y))[(var $z) := (lam $w (var $w))]", "(app (lam $x (var $x)) 7)", "(lam $x (lam $y (app (var $x) (var $y))))", "?x", "(app ?a[?b := ?c] ?d[?e := ?f][?g := ?h])"];
    if (want("Pattern::parse") || want("parse_pattern") || want("parse_pattern_nosubst") || tok_label.is_some()) && count[3] < 3 {
        let label = only.iter().find(|x| ["parse_pattern", "parse_pattern_nosubst"].contains(&x.as_str())).cloned().or(tok_label.clone()).unwrap_or("Pattern::parse".to_string());
        for t in rt_texts {
            verif_case(format!("round trip of {:?}", t));
            match std::panic::catch_unwind(|| Pattern::<BL>::parse(t)) {
                Err(_) => { count[3] += 1; fails.push(format!("FAIL {} C18:Pattern_parse.roundtrip text={:?} -> panic", label, t)); }
                Ok(Err(e)) => { count[3] += 1; fails.push(format!("FAIL {} C18:Pattern_parse.roundtrip text={:?} (a well-formed pattern) -> {:?}", label, t, e)); }
                Ok(Ok(p)) => {
                    let printed = p.to_string();
                    match std::panic::catch_unwind(|| Pattern::<BL>::parse(&printed)) {
                        Ok(Ok(p2)) if p2 == p => {}
                        other => { count[3] += 1; fails.push(format!("FAIL {} C18:Pattern_parse.roundtrip text={:?} prints as {:?}, which parses back to {:?}", label, t, printed, other.map(|r| r.map(|p| p.to_string())).ok())); }
                    }
                }
            }
        }
    }
    // VALUE -> print -> parse round trip over slot names (C18 speaks about printing a VALUE and reading it back; a text that is
    // read into a different value and printed canonically would pass the text-based round trip above): free and bound slots
    // named by numerals in non-canonical form, signed numerals, f<n> forms, ordinary names (seed C18-h)
    if (want("Pattern::parse") || want("RecExpr::parse") || want("parse_pattern") || want("parse_pattern_nosubst") || tok_label.is_some()) && count[5] < 3 {
        let label = tok_label.clone().unwrap_or(if want("RecExpr::parse") && !want("Pattern::parse") { "RecExpr::parse".to_string() } else { "Pattern::parse".to_string() });
        let names = ["x", "7", "07", "007", "+7", "0", "00", "f7", "f07", "f+7", "a_b", "x1", "1x", "4294967295", "1073741824"];
        for a in names { for b in names {
            verif_case(format!("value round trip with slot names {:?} (bound) and {:?} (free)", a, b));
            let var = |n: &str| RecExpr::<BL> { node: BL::Var(Slot::named(n)), children: vec![] };
            // (lam $a (app (var $a) (var $b)))
            let t = RecExpr::<BL> { node: BL::Lam(Bind { slot: Slot::named(a), elem: AppliedId::null() }), children: vec![
                RecExpr { node: BL::App(AppliedId::null(), AppliedId::null()), children: vec![var(a), var(b)] }] };
            let printed = t.to_string();
            match std::panic::catch_unwind(|| RecExpr::<BL>::parse(&printed)) {
                Ok(Ok(t2)) if t2 == t => {}
                other => { count[5] += 1; fails.push(format!("FAIL {} C18:RecExpr_parse.value-roundtrip the term lam ${} (app (var ${}) (var ${})) prints as {:?}, which parses back to {:?}", label, a, a, b, printed, other.map(|r| r.map(|p| p.to_string())).ok())); if count[5] >= 3 { break; } }
            }
            let p = re_to_pattern(&t);
            let printed = p.to_string();
            match std::panic::catch_unwind(|| Pattern::<BL>::parse(&printed)) {
                Ok(Ok(p2)) if p2 == p => {}
                other => { count[5] += 1; fails.push(format!("FAIL {} C18:Pattern_parse.value-roundtrip the pattern lam ${} (app (var ${}) (var ${})) prints as {:?}, which parses back to {:?}", label, a, a, b, printed, other.map(|r| r.map(|p| p.to_string())).ok())); if count[5] >= 3 { break; } }
            }
        } if count[5] >= 3 { break; } }
    }
    let _ = std::panic::take_hook();
    fails
}
