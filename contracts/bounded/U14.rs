//! Bounded stand-in for the e-graph level clause of C08 (histories of add / union / rewriting) — NOT a proof.
//! host: src/egraph/mod.rs
//! functions: EGraph::union apply_rewrites
//! also-with-features: checks
//! Bound: `EGraph::union`: 600 (deep: 6000) pseudo-random histories of 6 insertions (terms of depth ≤ 2 over
//! var, mul/2, f3/3, f4/4, g/1, lam, letrev, pin, nest, the 5 numeric slot names $0..$4; nodes violating the crate's
//! per-node rule 'a bound name is not free in the same node' are not generated) and 8 unions between the inserted terms, plus 17 hand-written histories, every history once under the unit analysis and once under a min-size analysis (whose data change, so that analysis-only updates are queued)
//! (symmetry then redundancy, a class equated with a term that contains it, redundancy under a binder);
//! `apply_rewrites`: 15 terms × 15 rule sets × 3 rounds (native substitution also nested in a substitution) and 5 terms × 10 one-rule-per-round sequences (native substitution,
//! let-introduction, rules under binders, after a redundancy or symmetry was established).  After EVERY operation: the built-in `EGraph::check`, every
//! e-node listed for a class looks up to that class, no e-node is listed for two live classes, every e-node mentions all
//! slots of its class, `find_applied_id` is idempotent on the inserted handles.
//! The build with the crate's internal assertions is exercised by the same harness when the copy is built with
//! `--features checks` (thorough tier: VERIF_BOUNDED_DEEP).
use crate::*;

define_language! {
    pub enum HL {
        Var(Slot) = "var",
        Lam(Bind<AppliedId>) = "lam",
        App(AppliedId, AppliedId) = "app",
        Let(Bind<AppliedId>, AppliedId) = "let",
        // binders that are not the first slot-carrying component of their node
        LetRev(AppliedId, Bind<AppliedId>) = "letrev",
        Pin(Slot, Bind<AppliedId>) = "pin",
        Nest(Bind<Bind<AppliedId>>) = "nest",
        Mul(AppliedId, AppliedId) = "mul",
        F3(AppliedId, AppliedId, AppliedId) = "f3",
        F4(AppliedId, AppliedId, AppliedId, AppliedId) = "f4",
        G(AppliedId) = "g",
        Zero() = "zero",
    }
}

type EG = EGraph<HL, ()>;

/// an analysis whose data really change (smallest term size): unions and congruences then also queue analysis-only updates
#[derive(Default)] pub struct Size;
impl Analysis<HL> for Size {
    type Data = u64;
    fn make(eg: &EGraph<HL, Self>, n: &HL) -> u64 { let mut s = 1u64; for c in n.applied_id_occurrences() { s = s.saturating_add(*eg.analysis_data(c.id)); } s }
    fn merge(l: u64, r: u64) -> u64 { l.min(r) }
}

/// a SET-valued analysis (merge = union): the operators that occur in some term of the class.  Its data change at other moments than
/// those of `Size` - in particular in the middle of `handle_pending`, when a child of the e-node being re-registered has just died (F17)
#[derive(Default)] pub struct Ops;
impl Analysis<HL> for Ops {
    type Data = std::collections::BTreeSet<String>;
    fn make(eg: &EGraph<HL, Self>, n: &HL) -> Self::Data { let mut s = Self::Data::new(); if let Some(SyntaxElem::String(op)) = n.to_syntax().into_iter().next() { s.insert(op); } for c in n.applied_id_occurrences() { s.extend(eg.analysis_data(c.id).iter().cloned()); } s }
    fn merge(l: Self::Data, r: Self::Data) -> Self::Data { l.union(&r).cloned().collect() }
}

struct Rng(u64);
impl Rng {
    fn next(&mut self, n: u64) -> u64 { self.0 ^= self.0 << 13; self.0 ^= self.0 >> 7; self.0 ^= self.0 << 17; self.0 % n }
}

fn free_hl(t: &RecExpr<HL>, env: &mut Vec<Slot>, out: &mut Vec<Slot>) {
    let mut under = |bs: &[Slot], c: &RecExpr<HL>, env: &mut Vec<Slot>, out: &mut Vec<Slot>| { for b in bs { env.push(*b); } free_hl(c, env, out); for _ in bs { env.pop(); } };
    match &t.node {
        HL::Var(s) => if !env.contains(s) && !out.contains(s) { out.push(*s); },
        HL::Lam(b) => under(&[b.slot], &t.children[0], env, out),
        HL::Let(b, _) => { under(&[b.slot], &t.children[0], env, out); free_hl(&t.children[1], env, out); }
        HL::LetRev(_, b) => { free_hl(&t.children[0], env, out); under(&[b.slot], &t.children[1], env, out); }
        HL::Pin(s, b) => { if !env.contains(s) && !out.contains(s) { out.push(*s); } under(&[b.slot], &t.children[0], env, out); }
        HL::Nest(b) => under(&[b.slot, b.elem.slot], &t.children[0], env, out),
        _ => for c in &t.children { free_hl(c, env, out); },
    }
}
/// the crate's per-node rule (Language::check): a name bound by a node does not occur free in the same node outside the binder's scope
fn well_formed_hl(t: &RecExpr<HL>) -> bool {
    let fv = |c: &RecExpr<HL>| { let mut o = Vec::new(); free_hl(c, &mut Vec::new(), &mut o); o };
    let ok = match &t.node {
        HL::Let(b, _) => !fv(&t.children[1]).contains(&b.slot),
        HL::LetRev(_, b) => !fv(&t.children[0]).contains(&b.slot),
        HL::Pin(s, b) => *s != b.slot,
        HL::Nest(b) => b.slot != b.elem.slot,
        _ => true,
    };
    ok && t.children.iter().all(well_formed_hl)
}
fn term(r: &mut Rng, depth: u32) -> String {
    for _ in 0..8 { let t = term_raw(r, depth); if well_formed_hl(&RecExpr::<HL>::parse(&t).unwrap()) { return t; } }
    "(var $1)".to_string()
}
fn term_raw(r: &mut Rng, depth: u32) -> String {
    let term = term_raw;
    // $0..$4 are numeric names; shapes number their slots $0, $1, ..
    let v = |r: &mut Rng| format!("(var ${})", r.next(5));
    if depth == 0 { return v(r); }
    match r.next(10) {
        7 => return format!("(letrev {} ${} {})", term(r, depth - 1), r.next(5), term(r, depth - 1)),
        8 => return format!("(pin ${} ${} {})", r.next(5), r.next(5), term(r, depth - 1)),
        9 => return format!("(nest ${} ${} {})", r.next(5), r.next(5), term(r, depth - 1)),
        _ => {}
    }
    match r.next(7) {
        0 => format!("(mul {} {})", term(r, depth - 1), term(r, depth - 1)),
        1 => format!("(f3 {} {} {})", v(r), v(r), v(r)),
        2 => format!("(f4 {} {} {} {})", v(r), v(r), v(r), v(r)),
        3 => format!("(g {})", term(r, depth - 1)),
        4 => format!("(lam ${} {})", r.next(5), term(r, depth - 1)),
        5 => "zero".to_string(),
        _ => v(r),
    }
}

/// the clauses of C08 that can be observed from outside, after one operation
fn consistent<N: Analysis<HL>>(eg: &EGraph<HL, N>, handles: &[AppliedId]) -> Result<(), String> {
    eg.check();
    let ids = eg.ids();
    let mut owner: std::collections::HashMap<HL, Id> = Default::default();
    for i in &ids {
        let cs = eg.slots(*i);
        for n in eg.enodes(*i) {
            match eg.lookup(&n) {
                None => return Err(format!("e-node {:?} is listed for class {:?} but lookup does not find it", n, i)),
                Some(a) => if a.id != *i { return Err(format!("e-node {:?} is listed for class {:?} but looks up to {:?}", n, i, a.id)); }
            }
            if !n.slots().is_superset(&cs) { return Err(format!("e-node {:?} of class {:?} does not mention all of the class's slots {:?}", n, i, cs)); }
            let sh = n.weak_shape().0;
            if let Some(o) = owner.get(&sh) { if *o != *i { return Err(format!("e-node shape {:?} is listed for the two live classes {:?} and {:?}", sh, o, i)); } }
            owner.insert(sh, *i);
        }
    }
    for h in handles {
        let a = eg.find_applied_id(h);
        let b = eg.find_applied_id(&a);
        if a != b { return Err(format!("find is not idempotent on {:?}: {:?} then {:?}", h, a, b)); }
    }
    Ok(())
}

fn run_history<N: Analysis<HL> + Default>(adds: &[String], unions: &[(usize, usize)]) -> Result<(), String> {
    let mut eg = EGraph::<HL, N>::default();
    let mut ids = Vec::new();
    for t in adds {
        ids.push(eg.add_expr(RecExpr::<HL>::parse(t).map_err(|e| format!("harness term does not parse: {:?}", e))?));
        consistent(&eg, &ids).map_err(|e| format!("after add {}: {}", t, e))?;
    }
    for (k, (a, b)) in unions.iter().enumerate() {
        eg.union(&ids[*a], &ids[*b]);
        consistent(&eg, &ids).map_err(|e| format!("after union #{} ({} ~ {}): {}", k, adds[*a], adds[*b], e))?;
    }
    Ok(())
}

fn hand_written() -> Vec<(Vec<&'static str>, Vec<(usize, usize)>)> {
    vec![
        // an e-node that is a usage of its own class and has a second child whose class dies (defect F17, fixed by c354467; shows
        // under an analysis whose datum changes at that moment: Ops)
        (vec!["zero", "(mul zero (g (g zero)))", "(g (g zero))", "(f3 zero zero zero)", "(g (f3 zero zero zero))", "(mul (f3 zero zero zero) (f3 zero zero zero))", "(f4 (f3 zero zero zero) zero zero zero)"], vec![(0, 1), (2, 3)]),
        // a symmetry, then a slot in its orbit becomes redundant
        (vec!["(mul (var $1) (var $2))", "(mul (var $2) (var $1))", "(mul (var $1) (var $7))"], vec![(0, 1), (0, 2)]),
        (vec!["(f3 (var $1) (var $2) (var $3))", "(f3 (var $2) (var $3) (var $1))", "(f3 (var $1) (var $2) (var $9))"], vec![(0, 1), (0, 2)]),
        (vec!["(f4 (var $1) (var $2) (var $3) (var $4))", "(f4 (var $2) (var $1) (var $3) (var $4))", "(f4 (var $1) (var $2) (var $4) (var $3))", "(f4 (var $1) (var $2) (var $3) (var $9))"], vec![(0, 1), (0, 2), (0, 3)]),
        (vec!["(f4 (var $1) (var $2) (var $3) (var $4))", "(f4 (var $2) (var $3) (var $4) (var $1))", "(f4 (var $1) (var $2) (var $3) (var $9))"], vec![(0, 1), (0, 2)]),
        // redundancy first, symmetry second
        (vec!["(mul (var $1) (var $2))", "(mul (var $2) (var $1))", "(mul (var $1) (var $7))"], vec![(0, 2), (0, 1)]),
        // a class equated with a term that contains it
        (vec!["(g (f3 (var $4) (var $2) (var $3)))", "(f3 (var $1) (var $4) (var $2))"], vec![(0, 1)]),
        (vec!["(g (mul (var $1) (var $2)))", "(mul (var $3) (var $1))"], vec![(0, 1)]),
        (vec!["(g (g (f4 (var $1) (var $2) (var $3) (var $4))))", "(f4 (var $4) (var $1) (var $2) (var $3))"], vec![(0, 1)]),
        (vec!["(mul (var $1) (g (var $1)))", "(var $1)"], vec![(0, 1)]),
        // an e-node with a slot that is redundant in its class, over a child that then becomes symmetric (F14)
        (vec!["(g (mul (var $1) (var $2)))", "(g (mul (var $1) (var $3)))", "(mul (var $1) (var $2))", "(mul (var $2) (var $1))"], vec![(0, 1), (2, 3)]),
        (vec!["(g (f3 (var $1) (var $2) (var $3)))", "(g (f3 (var $1) (var $2) (var $9)))", "(f3 (var $1) (var $2) (var $3))", "(f3 (var $2) (var $3) (var $1))"], vec![(0, 1), (2, 3)]),
        // a symmetric class merged INTO a less symmetric class that has parents with differently ordered invocations of it
        (vec!["(mul (var $1) (var $2))", "(mul (var $2) (var $1))", "(app (var $1) (var $2))", "(g (app (var $1) (var $2)))", "(f3 (app (var $1) (var $2)) (app (var $2) (var $1)) zero)", "(f3 (var $2) (app (var $1) (var $2)) zero)"], vec![(0, 1), (0, 2)]),
        (vec!["(f3 (var $1) (var $2) (var $3))", "(f3 (var $2) (var $3) (var $1))", "(f4 (var $1) (var $2) (var $3) zero)", "(g (f4 (var $1) (var $2) (var $3) zero))", "(mul (f4 (var $1) (var $2) (var $3) zero) (f4 (var $2) (var $1) (var $3) zero))", "(mul (f4 (var $3) (var $1) (var $2) zero) (var $1))"], vec![(0, 1), (0, 2)]),
        // a dying class with two parents, one of which sits in the class the other one mentions (analysis-only and full
        // updates of the same shape meet in one rebuild), repeated so that the hash order does not matter
        (vec!["(mul (var $1) (var $1))", "(g (var $1))", "(f3 (mul (var $1) (var $1)) (g (g (mul (var $1) (var $1)))) zero)", "(g (g (mul (var $1) (var $1))))", "(f3 (mul (var $2) (var $2)) (g (g (mul (var $2) (var $2)))) (var $2))", "(app (mul (var $1) (var $1)) (g (g (mul (var $1) (var $1)))))", "(app (g (g (mul (var $3) (var $3)))) (mul (var $3) (var $3)))"], vec![(0, 1)]),
        // redundancy under a binder
        (vec!["(lam $1 (mul (var $1) (var $2)))", "(lam $1 (mul (var $1) (var $3)))"], vec![(0, 1)]),
        (vec!["(lam $1 (f3 (var $1) (var $2) (var $3)))", "(lam $1 (f3 (var $1) (var $3) (var $2)))", "(lam $1 (f3 (var $1) (var $2) (var $8)))"], vec![(0, 1), (0, 2)]),
        (vec!["(lam $1 (var $1))", "(lam $2 (var $2))", "(var $1)", "(var $2)"], vec![(0, 1), (2, 3)]),
    ]
}

fn rules() -> Vec<(&'static str, &'static str, &'static str)> {
    vec![
        ("mul-comm", "(mul ?a ?b)", "(mul ?b ?a)"),
        ("forget", "(mul ?a ?b)", "(mul ?a (var $7))"),
        ("f3-rot", "(f3 ?a ?b ?c)", "(f3 ?b ?c ?a)"),
        ("f3-forget", "(f3 ?a ?b ?c)", "(f3 ?a ?b (var $9))"),
        ("g-elim", "(g ?a)", "?a"),
        ("mul-zero", "(mul ?a zero)", "zero"),
        ("f4-swap", "(f4 ?a ?b ?c ?d)", "(f4 ?b ?a ?d ?c)"),
        // rewriting under binders: native substitution, let-introduction, eta, a rule whose right side binds a slot
        ("subst-beta", "(app (lam $1 ?b) ?t)", "?b[(var $1) := ?t]"),
        ("beta-let", "(app (lam $1 ?b) ?t)", "(let $1 ?b ?t)"),
        ("let-var-same", "(let $1 (var $1) ?e)", "?e"),
        ("wrap", "(mul ?a ?b)", "(app (lam $5 (mul (var $5) ?b)) ?a)"),
        ("lam-forget", "(lam $1 (mul ?a ?b))", "(lam $1 (mul ?a (var $8)))"),
        // a substitution inside a substitution (in the body position, in the argument position)
        ("subst-twice", "(app (app (lam $1 (lam $2 ?b)) ?t) ?u)", "?b[(var $1) := ?t][(var $2) := ?u]"),
        ("subst-in-arg", "(app (lam $1 ?b) (app (lam $2 ?c) ?u))", "?b[(var $1) := ?c[(var $2) := ?u]]"),
    ]
}

pub fn run(only: &[String]) -> Vec<String> {
    let mut fails = Vec::new();
    let want = |f: &str| only.is_empty() || only.iter().any(|x| x == f);
    let deep = std::env::var("VERIF_BOUNDED_DEEP").is_ok();

    if want("EGraph::union") {
        let mut n = 0;
        for (adds, unions) in hand_written() {
            let adds: Vec<String> = adds.iter().map(|x| x.to_string()).collect();
            verif_case(format!("history: add {:?}; union {:?}", adds, unions));
            if let Err(e) = run_history::<()>(&adds, &unions) { if n < 3 { n += 1; fails.push(format!("FAIL EGraph::union C08:history.consistent history add {:?}; union {:?}: {}", adds, unions, e)); } }
            if let Err(e) = run_history::<Size>(&adds, &unions) { if n < 3 { n += 1; fails.push(format!("FAIL EGraph::union C08:history.consistent (with a min-size analysis) history add {:?}; union {:?}: {}", adds, unions, e)); } }
            if let Err(e) = run_history::<Ops>(&adds, &unions) { if n < 3 { n += 1; fails.push(format!("FAIL EGraph::union C08:history.consistent (with a set-of-operators analysis) history add {:?}; union {:?}: {}", adds, unions, e)); } }
        }
        let seeds: u64 = if deep { verif_scale(6000) } else { 600 };
        for seed in 1..=seeds {
            let mut r = Rng(seed.wrapping_mul(0x9E3779B97F4A7C15).wrapping_add(1));
            let adds: Vec<String> = (0..6).map(|_| term(&mut r, 2)).collect();
            let unions: Vec<(usize, usize)> = (0..8).map(|_| (r.next(6) as usize, r.next(6) as usize)).collect();
            verif_case(format!("history (seed {}): add {:?}; union {:?}", seed, adds, unions));
            if let Err(e) = run_history::<()>(&adds, &unions) { if n < 3 { n += 1; fails.push(format!("FAIL EGraph::union C08:history.consistent history (seed {}) add {:?}; union {:?}: {}", seed, adds, unions, e)); } }
            if let Err(e) = run_history::<Size>(&adds, &unions) { if n < 3 { n += 1; fails.push(format!("FAIL EGraph::union C08:history.consistent (with a min-size analysis) history (seed {}) add {:?}; union {:?}: {}", seed, adds, unions, e)); } }
            if let Err(e) = run_history::<Ops>(&adds, &unions) { if n < 3 { n += 1; fails.push(format!("FAIL EGraph::union C08:history.consistent (with a set-of-operators analysis) history (seed {}) add {:?}; union {:?}: {}", seed, adds, unions, e)); } }
        }
    }

    if want("apply_rewrites") {
        let terms = ["(mul (var $1) (var $2))", "(mul (mul (var $1) (var $2)) (mul (var $2) (var $1)))", "(f3 (var $1) (var $2) (var $3))",
            "(g (f3 (var $1) (var $2) (var $3)))", "(mul (f3 (var $1) (var $2) (var $3)) zero)", "(lam $1 (mul (var $1) (var $2)))",
            "(f4 (var $1) (var $2) (var $3) (var $4))", "(mul (g (var $1)) (f4 (var $1) (var $2) (var $1) (var $2)))", "(lam $1 (f3 (var $1) (var $2) (var $1)))",
            "(app (lam $1 (mul (var $1) (var $2))) (var $3))", "(app (lam $1 (lam $2 (mul (var $1) (mul (var $2) (var $3))))) (g (var $2)))",
            "(lam $3 (app (lam $1 (mul (var $3) (mul (var $1) (var $2)))) (var $3)))", "(app (lam $1 (mul (var $2) (var $2))) (f3 (var $1) (var $2) (var $3)))",
            "(app (app (lam $1 (lam $2 (mul (var $1) (var $2)))) (var $3)) (var $4))", "(app (lam $1 (mul (var $1) (var $1))) (app (lam $2 (g (var $2))) (var $3)))"];
        let sets: Vec<Vec<usize>> = vec![vec![0, 1], vec![2, 3], vec![0, 1, 2, 3], vec![4, 5], vec![6, 0], vec![0, 1, 2, 3, 4, 5, 6],
            vec![1, 7], vec![7, 0], vec![8, 9, 1], vec![10, 7, 1], vec![11, 7], vec![0, 1, 7, 8, 9, 10, 11], vec![12], vec![13], vec![12, 13, 7, 0]];
        let rs = rules();
        let mut n = 0;
        for t in terms { for set in &sets {
            let mut eg = EG::default();
            let h = vec![eg.add_expr(RecExpr::<HL>::parse(t).unwrap())];
            let rws: Vec<Rewrite<HL, ()>> = set.iter().map(|i| Rewrite::new(rs[*i].0, rs[*i].1, rs[*i].2)).collect();
            for round in 0..3 {
                verif_case(format!("term {} rules {:?} round {}", t, set.iter().map(|i| rs[*i].0).collect::<Vec<_>>(), round));
                apply_rewrites(&mut eg, &rws);
                if let Err(e) = consistent(&eg, &h) { if n < 3 { n += 1; fails.push(format!("FAIL apply_rewrites C08:history.consistent term {} rules {:?} round {}: {}", t, set, round, e)); } break; }
                if eg.total_number_of_nodes() > 300 { break; }
            }
        }}
    }
    if want("apply_rewrites") {
        // one rule per round: a redundancy or a symmetry is established BEFORE the next rule matches
        let seqs: Vec<Vec<usize>> = vec![vec![1, 7], vec![1, 8, 9], vec![0, 1, 7], vec![11, 7], vec![11, 8], vec![10, 1, 7], vec![1, 10, 7], vec![0, 7, 1], vec![7, 1, 0], vec![1, 0, 10, 7]];
        let terms = ["(app (lam $1 (mul (var $1) (var $2))) (var $3))", "(app (lam $1 (lam $2 (mul (var $1) (mul (var $2) (var $3))))) (g (var $2)))",
            "(lam $3 (app (lam $1 (mul (var $3) (mul (var $1) (var $2)))) (var $3)))", "(app (lam $1 (mul (var $2) (var $2))) (f3 (var $1) (var $2) (var $3)))",
            "(app (lam $1 (mul (mul (var $1) (var $2)) (mul (var $2) (var $1)))) (mul (var $2) (var $4)))"];
        let rs = rules();
        let mut n = 0;
        for t in terms { for seq in &seqs {
            let mut eg = EG::default();
            let h = vec![eg.add_expr(RecExpr::<HL>::parse(t).unwrap())];
            for (round, r) in seq.iter().enumerate() {
                verif_case(format!("term {} one rule per round {:?}, round {} ({})", t, seq.iter().map(|i| rs[*i].0).collect::<Vec<_>>(), round, rs[*r].0));
                let rws = vec![Rewrite::<HL, ()>::new(rs[*r].0, rs[*r].1, rs[*r].2)];
                apply_rewrites(&mut eg, &rws);
                if let Err(e) = consistent(&eg, &h) { if n < 3 { n += 1; fails.push(format!("FAIL apply_rewrites C08:history.consistent term {} one rule per round {:?} round {}: {}", t, seq, round, e)); } break; }
                if eg.total_number_of_nodes() > 300 { break; }
            }
        }}
    }
    fails
}
