//! Bounded stand-in for the e-graph level clause of C01 (reported equalities are implied by the asserted ones) — NOT a proof.
//! host: src/egraph/mod.rs
//! functions: EGraph::eq
//! Oracle: a model.  Terms over var / add / mul / sub / neg / zero / one are polynomials over the field Z/1000003; every
//! union the harness asserts is an instance of a ring law (commutativity, associativity, distributivity, x*0 = 0,
//! x+0 = x, x-x = 0, x*1 = x, -(-x) = x, x + (-x) = 0), so every asserted equation holds in the model, and so does
//! everything in the congruence they generate.  After EVERY union: for every pair of kept handles that `eq` reports equal
//! the two terms must evaluate equally under 6 fixed-seed assignments of the slots; a slot that is free in a kept term but
//! no longer a slot of its class must not influence the term's value (a class drops a parameter only if its terms do not
//! depend on it).  Necessary conditions only: a wrong `true` that happens to agree with the model is not seen.
//! Bound: 12 hand-written + 60 (deep: 4000) histories of 4 law instances over operand terms of depth <= 1 with 3 slot
//! names (all subterms, a slot-permuted copy of each side and parents of the sides that re-use one of their slots are
//! inserted before any union and kept as handles), unions in fixed-seed order.
//! also-with-features: checks
use crate::*;

define_language! {
    pub enum ML {
        Var(Slot) = "var",
        Add(AppliedId, AppliedId) = "add",
        Mul(AppliedId, AppliedId) = "mul",
        Sub(AppliedId, AppliedId) = "sub",
        Neg(AppliedId) = "neg",
        Zero() = "zero",
        One() = "one",
    }
}
type MG = EGraph<ML, ()>;
const P: u64 = 1_000_003;

struct Rng(u64);
impl Rng { fn next(&mut self, n: u64) -> u64 { self.0 ^= self.0 << 13; self.0 ^= self.0 >> 7; self.0 ^= self.0 << 17; self.0 % n } }

fn eval(re: &RecExpr<ML>, env: &dyn Fn(Slot) -> u64) -> u64 {
    let c: Vec<u64> = re.children.iter().map(|x| eval(x, env)).collect();
    match &re.node {
        ML::Var(s) => env(*s) % P,
        ML::Add(..) => (c[0] + c[1]) % P,
        ML::Mul(..) => (c[0] * c[1]) % P,
        ML::Sub(..) => (c[0] + P - c[1]) % P,
        ML::Neg(..) => (P - c[0]) % P,
        ML::Zero() => 0,
        ML::One() => 1,
    }
}
fn free_slots(re: &RecExpr<ML>, out: &mut Vec<Slot>) {
    if let ML::Var(s) = &re.node { if !out.contains(s) { out.push(*s); } }
    for c in &re.children { free_slots(c, out); }
}
fn subterms(re: &RecExpr<ML>, out: &mut Vec<RecExpr<ML>>) { for c in &re.children { subterms(c, out); } out.push(re.clone()); }

fn operand(r: &mut Rng) -> String {
    let v = |r: &mut Rng| format!("(var ${})", 1 + r.next(3));
    match r.next(8) {
        0 => format!("(add {} {})", v(r), v(r)),
        1 => format!("(mul {} {})", v(r), v(r)),
        2 => format!("(sub {} {})", v(r), v(r)),
        3 => format!("(neg {})", v(r)),
        4 => "one".to_string(),
        _ => v(r),
    }
}
/// an instance of a ring law: two texts that denote the same polynomial
fn law(r: &mut Rng) -> (String, String) {
    let (x, y, z) = (operand(r), operand(r), operand(r));
    match r.next(12) {
        0 => (format!("(add {} {})", x, y), format!("(add {} {})", y, x)),
        1 => (format!("(mul {} {})", x, y), format!("(mul {} {})", y, x)),
        2 => (format!("(add {} (add {} {}))", x, y, z), format!("(add (add {} {}) {})", x, y, z)),
        3 => (format!("(mul {} (mul {} {}))", x, y, z), format!("(mul (mul {} {}) {})", x, y, z)),
        4 => (format!("(mul {} (add {} {}))", x, y, z), format!("(add (mul {} {}) (mul {} {}))", x, y, x, z)),
        5 => (format!("(mul {} zero)", x), "zero".to_string()),
        6 => (format!("(add {} zero)", x), x.clone()),
        7 => (format!("(sub {} {})", x, x), "zero".to_string()),
        8 => (format!("(mul {} one)", x), x.clone()),
        9 => (format!("(neg (neg {}))", x), x.clone()),
        10 => (format!("(add {} (neg {}))", x, x), "zero".to_string()),
        _ => (format!("(sub {} {})", x, y), format!("(add {} (neg {}))", x, y)),
    }
}
fn permute_slots(t: &str, r: &mut Rng) -> String {
    let perms = [[2, 1, 3], [3, 2, 1], [1, 3, 2], [2, 3, 1], [3, 1, 2]];
    let p = perms[r.next(5) as usize];
    let s = t.replace("$1", "$A").replace("$2", "$B").replace("$3", "$C");
    s.replace("$A", &format!("${}", p[0])).replace("$B", &format!("${}", p[1])).replace("$C", &format!("${}", p[2]))
}

fn check_model(eg: &MG, kept: &[RecExpr<ML>], handles: &[AppliedId], desc: &str) -> Result<(), String> {
    for a in 0..handles.len() { for b in (a + 1)..handles.len() {
        if eg.eq(&handles[a], &handles[b]) {
            for k in 0..6u64 {
                let env = move |s: Slot| { let mut h = std::collections::hash_map::DefaultHasher::new(); use std::hash::{Hash, Hasher}; (format!("{}", s), k).hash(&mut h); h.finish() % P };
                let (x, y) = (eval(&kept[a], &env), eval(&kept[b], &env));
                if x != y { return Err(format!("C01:history.eq-sound {}: {} and {} are reported equal, but under assignment #{} they evaluate to {} and {} in Z/{}", desc, kept[a], kept[b], k, x, y, P)); }
            }
        }
    }}
    for (k, h) in handles.iter().enumerate() {
        let f = eg.find_applied_id(h);
        let live: Vec<Slot> = f.slots().into_iter().collect();
        let mut fs = Vec::new(); free_slots(&kept[k], &mut fs);
        for s in fs { if !live.contains(&s) {
            // s was dropped: the value must not depend on it
            for j in 0..4u64 {
                let e1 = move |t: Slot| { let mut h = std::collections::hash_map::DefaultHasher::new(); use std::hash::{Hash, Hasher}; (format!("{}", t), j).hash(&mut h); h.finish() % P };
                let e2 = move |t: Slot| if t == s { (e1(t) + 1 + j) % P } else { e1(t) };
                let (x, y) = (eval(&kept[k], &e1), eval(&kept[k], &e2));
                if x != y { return Err(format!("C01:history.slot-drop-sound {}: the class of {} no longer has the slot {} but the term's value depends on it ({} vs {})", desc, kept[k], s, x, y)); }
            }
        }}
    }
    Ok(())
}

fn run_history(pairs: &[(String, String)], extra: &[String], order: &[usize], desc: &str) -> Result<(), String> {
    let mut eg = MG::default();
    let mut kept: Vec<RecExpr<ML>> = Vec::new();
    let mut tops: Vec<(usize, usize)> = Vec::new();
    for (a, b) in pairs {
        let (ra, rb) = (RecExpr::<ML>::parse(a).unwrap(), RecExpr::<ML>::parse(b).unwrap());
        subterms(&ra, &mut kept); let ia = kept.len() - 1;
        subterms(&rb, &mut kept); let ib = kept.len() - 1;
        tops.push((ia, ib));
    }
    for e in extra { subterms(&RecExpr::<ML>::parse(e).unwrap(), &mut kept); }
    let handles: Vec<AppliedId> = kept.iter().map(|t| eg.add_expr(t.clone())).collect();
    check_model(&eg, &kept, &handles, &format!("{} before any union", desc))?;
    for (n, k) in order.iter().enumerate() {
        let (ia, ib) = tops[*k];
        eg.union(&handles[ia], &handles[ib]);
        check_model(&eg, &kept, &handles, &format!("{} after union #{} ({} ~ {})", desc, n, kept[ia], kept[ib]))?;
    }
    Ok(())
}

pub fn run(only: &[String]) -> Vec<String> {
    let mut fails = Vec::new();
    if !(only.is_empty() || only.iter().any(|x| x == "EGraph::eq")) { return fails; }
    let deep = std::env::var("VERIF_BOUNDED_DEEP").is_ok();
    let mut n = 0;
    let v = |i: u32| format!("(var ${})", i);
    let hand: Vec<(Vec<(String, String)>, Vec<String>)> = vec![
        (vec![(format!("(add {} {})", v(1), v(2)), format!("(add {} {})", v(2), v(1)))], vec![format!("(add {} {})", v(1), v(3)), format!("(mul (add {} {}) (add {} {}))", v(1), v(2), v(2), v(1))]),
        (vec![(format!("(sub {} {})", v(1), v(1)), "zero".to_string())], vec![format!("(sub {} {})", v(1), v(2)), format!("(sub {} {})", v(2), v(2)), format!("(add (sub {} {}) {})", v(3), v(3), v(1))]),
        (vec![(format!("(mul {} zero)", v(1)), "zero".to_string()), (format!("(mul {} {})", v(1), v(2)), format!("(mul {} {})", v(2), v(1)))], vec![format!("(mul {} {})", v(1), v(3)), format!("(mul zero {})", v(2))]),
        (vec![(format!("(add {} (add {} {}))", v(1), v(2), v(3)), format!("(add (add {} {}) {})", v(1), v(2), v(3))), (format!("(add {} {})", v(1), v(2)), format!("(add {} {})", v(2), v(1)))], vec![format!("(add {} (add {} {}))", v(3), v(2), v(1)), format!("(add {} (add {} {}))", v(1), v(1), v(2))]),
        (vec![(format!("(mul {} (add {} {}))", v(1), v(2), v(3)), format!("(add (mul {} {}) (mul {} {}))", v(1), v(2), v(1), v(3))), (format!("(mul {} {})", v(1), v(2)), format!("(mul {} {})", v(2), v(1)))], vec![format!("(mul {} (add {} {}))", v(2), v(1), v(3))]),
        (vec![(format!("(add {} (neg {}))", v(1), v(1)), "zero".to_string()), (format!("(neg (neg {}))", v(2)), v(2))], vec![format!("(add {} (neg {}))", v(1), v(2)), format!("(neg {})", v(1))]),
        (vec![(format!("(sub {} {})", v(1), v(2)), format!("(add {} (neg {}))", v(1), v(2))), (format!("(add {} {})", v(1), v(2)), format!("(add {} {})", v(2), v(1)))], vec![format!("(sub {} {})", v(2), v(1)), format!("(add (neg {}) {})", v(2), v(1))]),
        (vec![(format!("(mul {} one)", v(1)), v(1)), (format!("(mul {} {})", v(1), v(2)), format!("(mul {} {})", v(2), v(1)))], vec![format!("(mul one {})", v(2)), v(2)]),
        (vec![(format!("(add {} zero)", v(1)), v(1)), (format!("(add {} {})", v(1), v(2)), format!("(add {} {})", v(2), v(1)))], vec![format!("(add zero {})", v(2)), format!("(add zero zero)")]),
        (vec![(format!("(mul (sub {} {}) {})", v(1), v(1), v(2)), format!("(mul {} (sub {} {}))", v(2), v(1), v(1))), (format!("(sub {} {})", v(1), v(1)), "zero".to_string()), (format!("(mul {} zero)", v(2)), "zero".to_string())], vec![format!("(mul (sub {} {}) {})", v(3), v(3), v(1))]),
    ];
    let hand: Vec<(Vec<(String, String)>, Vec<String>)> = hand.into_iter().chain(vec![
        // a commutative child, then the child is equated with a term of another shape; parents re-use a slot of the child
        (vec![(format!("(add {} {})", v(1), v(2)), format!("(add {} {})", v(2), v(1))), (format!("(add (add {} {}) zero)", v(1), v(2)), format!("(add {} {})", v(1), v(2)))],
         vec![format!("(mul (add {} {}) {})", v(1), v(2), v(2)), format!("(mul (add {} {}) {})", v(1), v(2), v(1)), format!("(mul (add (add {} {}) zero) {})", v(1), v(2), v(2)), format!("(mul (add (add {} {}) zero) {})", v(1), v(2), v(1)), format!("(sub {} (add {} {}))", v(2), v(1), v(2)), format!("(sub {} (add (add {} {}) zero))", v(2), v(1), v(2))]),
        (vec![(format!("(mul {} {})", v(1), v(2)), format!("(mul {} {})", v(2), v(1))), (format!("(mul (mul {} {}) one)", v(1), v(2)), format!("(mul {} {})", v(1), v(2)))],
         vec![format!("(sub (mul {} {}) {})", v(1), v(2), v(2)), format!("(sub (mul {} {}) {})", v(1), v(2), v(1)), format!("(sub (mul (mul {} {}) one) {})", v(1), v(2), v(2)), format!("(sub (mul (mul {} {}) one) {})", v(1), v(2), v(1))]),
    ]).collect();
    for (pairs, extra) in hand {
        let orders: Vec<Vec<usize>> = if pairs.len() == 1 { vec![vec![0]] } else if pairs.len() == 2 { vec![vec![0, 1], vec![1, 0]] } else { vec![vec![0, 1, 2], vec![2, 1, 0], vec![1, 2, 0]] };
        for order in orders {
            let desc = format!("history: laws {:?}, also inserted {:?}, unions in order {:?}", pairs, extra, order);
            verif_case(desc.clone());
            if let Err(e) = run_history(&pairs, &extra, &order, &desc) { if n < 3 { n += 1; let (c, m) = e.split_once(' ').unwrap(); fails.push(format!("FAIL EGraph::eq {} {}", c, m)); } }
        }
    }
    let seeds: u64 = if deep { verif_scale(4000) } else { 60 };
    for seed in 1..=seeds {
        let mut r = Rng(seed.wrapping_mul(0x9E3779B97F4A7C15).wrapping_add(3));
        let pairs: Vec<(String, String)> = (0..4).map(|_| law(&mut r)).collect();
        let mut extra = Vec::new();
        for (a, b) in &pairs { if r.next(2) == 0 { extra.push(permute_slots(a, &mut r)); } if r.next(3) == 0 { extra.push(permute_slots(b, &mut r)); } }
        // parents of the law sides that re-use one of their slots, inserted BEFORE any union (so that they are stored
        // in the shape they had while their child was still asymmetric), and the same parent with another slot
        for (a, b) in &pairs { for side in [a, b] { if r.next(2) == 0 {
            let op = ["mul", "add", "sub"][r.next(3) as usize];
            let v1 = 1 + r.next(3); let v2 = 1 + (v1 % 3);
            extra.push(format!("({} {} (var ${}))", op, side, v1));
            extra.push(format!("({} {} (var ${}))", op, side, v2));
        }}}
        let mut order: Vec<usize> = (0..4).collect();
        for i in (1..4).rev() { let j = r.next(i as u64 + 1) as usize; order.swap(i, j); }
        let desc = format!("history (seed {}): laws {:?}, also inserted {:?}, unions in order {:?}", seed, pairs, extra, order);
        verif_case(desc.clone());
        if let Err(e) = run_history(&pairs, &extra, &order, &desc) { if n < 3 { n += 1; let (c, m) = e.split_once(' ').unwrap(); fails.push(format!("FAIL EGraph::eq {} {}", c, m)); } }
    }
    fails
}
