//! Bounded stand-in for the e-graph level clause of C01 (reported equalities are implied by the asserted ones) — NOT a proof.
//! host: src/egraph/mod.rs
//! functions: EGraph::eq
//! Oracle: a model.  Terms over var / add / mul / sub / neg / zero / one are polynomials over the field Z/1000003; every
//! union the harness asserts is an instance of a ring law (commutativity, associativity, distributivity, x*0 = 0,
//! x+0 = x, x-x = 0, x*1 = x, -(-x) = x, x + (-x) = 0), so every asserted equation holds in the model, and so does
//! everything in the congruence they generate.  After EVERY union: for every pair of kept handles that `eq` reports equal
//! the two terms must evaluate equally under 6 fixed-seed assignments of the slots; a slot that is free in a kept term but
//! no longer a slot of its class must not influence the term's value (a class drops a parameter only if its terms do not
//! depend on it).  Necessary conditions only: a wrong `true` that happens to agree with the model is not seen.
//! Bound: 12 hand-written + 60 (deep: 1500) histories of 4 law instances over operand terms of depth <= 1 with 3 slot
//! names (all subterms, a slot-permuted copy of each side and parents of the sides that re-use one of their slots are
//! inserted before any union and kept as handles), unions in fixed-seed order.
//! Rewriting in the model: 80 (deep: 1500) terms of depth <= 3 over the ring operators and beta-redexes (app (lam $x body) arg)
//! (body may use $x, outer names, and a name that also occurs in arg), a fixed-seed subset of 8 ring-law rules and beta
//! reduction by native substitution, <= 3 rounds: all kept non-function subterms reported equal must evaluate equally.
//! Second oracle (binders): 10 hand-written + 150 (deep: 3000) e-graphs of terms over lam / letrev (binder after a child) /
//! pin (binder after a slot) / nest (two binders) / case (two sibling binders) with the names $0 $1 $2 $x (depth <= 3,
//! shadowing, a bound name that is also free, name-swapped copies) with NO union: two inserted terms must be equal exactly if they are
//! alpha-equivalent (de Bruijn forms agree), and the slots of the returned invocation must be the term's free slots.
//! also-with-features: checks
use crate::*;

define_language! {
    pub enum ML {
        Var(Slot) = "var",
        Add(AppliedId, AppliedId) = "add",
        Mul(AppliedId, AppliedId) = "mul",
        Sub(AppliedId, AppliedId) = "sub",
        Neg(AppliedId) = "neg",
        Lam(Bind<AppliedId>) = "lam",
        App(AppliedId, AppliedId) = "app",
        // binders that are NOT the first slot-carrying component of their node
        LetRev(AppliedId, Bind<AppliedId>) = "letrev",
        Pin(Slot, Bind<AppliedId>) = "pin",
        Nest(Bind<Bind<AppliedId>>) = "nest",
        Case(Bind<AppliedId>, Bind<AppliedId>) = "case",
        Zero() = "zero",
        One() = "one",
    }
}
type MG = EGraph<ML, ()>;
const P: u64 = 1_000_003;

struct Rng(u64);
impl Rng { fn next(&mut self, n: u64) -> u64 { self.0 ^= self.0 << 13; self.0 ^= self.0 >> 7; self.0 ^= self.0 << 17; self.0 % n } }

fn eval(re: &RecExpr<ML>, env: &dyn Fn(Slot) -> u64) -> u64 {
    // (app (lam $x body) arg): the value of body with $x bound to the value of arg (only this shape of application is generated)
    if let ML::App(..) = &re.node {
        if let ML::Lam(b) = &re.children[0].node {
            let arg = eval(&re.children[1], env);
            let x = b.slot;
            let env2 = move |s: Slot| if s == x { arg } else { env(s) };
            return eval(&re.children[0].children[0], &env2);
        }
        unreachable!("the harness only generates applications of a literal lambda");
    }
    let c: Vec<u64> = re.children.iter().map(|x| eval(x, env)).collect();
    match &re.node {
        ML::Var(s) => env(*s) % P,
        ML::Add(..) => (c[0] + c[1]) % P,
        ML::Mul(..) => (c[0] * c[1]) % P,
        ML::Sub(..) => (c[0] + P - c[1]) % P,
        ML::Neg(..) => (P - c[0]) % P,
        ML::Zero() => 0,
        ML::One() => 1,
        _ => unreachable!("the model part of the harness has no binders"),
    }
}

// ---- second oracle: with NO union asserted, two inserted terms are equal exactly if they are alpha-equivalent, and the
// slots of a term's class are exactly its free slots
fn de_bruijn(t: &RecExpr<ML>, env: &mut Vec<Slot>) -> String {
    let name = |s: &Slot, env: &Vec<Slot>| match env.iter().rposition(|x| x == s) { Some(i) => format!("b{}", env.len() - 1 - i), None => format!("{}", s) };
    let under = |binders: &[Slot], c: &RecExpr<ML>, env: &mut Vec<Slot>| { for b in binders { env.push(*b); } let r = de_bruijn(c, env); for _ in binders { env.pop(); } r };
    match &t.node {
        ML::Var(s) => name(s, env),
        ML::Lam(b) => format!("(lam {})", under(&[b.slot], &t.children[0], env)),
        ML::LetRev(_, b) => format!("(letrev {} {})", de_bruijn(&t.children[0], env), under(&[b.slot], &t.children[1], env)),
        ML::Pin(s, b) => format!("(pin {} {})", name(s, env), under(&[b.slot], &t.children[0], env)),
        ML::Nest(b) => format!("(nest {})", under(&[b.slot, b.elem.slot], &t.children[0], env)),
        ML::Case(a, b) => format!("(case {} {})", under(&[a.slot], &t.children[0], env), under(&[b.slot], &t.children[1], env)),
        n => { let cs: Vec<String> = t.children.iter().map(|c| de_bruijn(c, env)).collect(); format!("({:?}#{} {})", std::mem::discriminant(n), t.children.len(), cs.join(" ")) }
    }
}
fn free_of(t: &RecExpr<ML>, env: &mut Vec<Slot>, out: &mut Vec<Slot>) {
    let mut note = |s: &Slot, env: &Vec<Slot>, out: &mut Vec<Slot>| if !env.contains(s) && !out.contains(s) { out.push(*s); };
    match &t.node {
        ML::Var(s) => note(s, env, out),
        ML::Lam(b) => { env.push(b.slot); free_of(&t.children[0], env, out); env.pop(); }
        ML::LetRev(_, b) => { free_of(&t.children[0], env, out); env.push(b.slot); free_of(&t.children[1], env, out); env.pop(); }
        ML::Pin(s, b) => { note(s, env, out); env.push(b.slot); free_of(&t.children[0], env, out); env.pop(); }
        ML::Nest(b) => { env.push(b.slot); env.push(b.elem.slot); free_of(&t.children[0], env, out); env.pop(); env.pop(); }
        ML::Case(a, b) => { env.push(a.slot); free_of(&t.children[0], env, out); env.pop(); env.push(b.slot); free_of(&t.children[1], env, out); env.pop(); }
        _ => for c in &t.children { free_of(c, env, out); },
    }
}
/// the crate's well-formedness rule for one node (Language::check): a name bound by the node must not also occur free in the
/// node outside that binder's scope (in a sibling component, or below a sibling binder); nested binders of one node differ
fn well_formed(t: &RecExpr<ML>) -> bool {
    let fv = |c: &RecExpr<ML>| { let mut o = Vec::new(); free_of(c, &mut Vec::new(), &mut o); o };
    let ok = match &t.node {
        ML::LetRev(_, b) => !fv(&t.children[0]).contains(&b.slot),
        ML::Pin(s, b) => *s != b.slot,
        ML::Nest(b) => b.slot != b.elem.slot,
        ML::Case(a, b) => { let (fa, fb) = (fv(&t.children[0]), fv(&t.children[1])); !(fb.contains(&a.slot) && a.slot != b.slot) && !(fa.contains(&b.slot) && a.slot != b.slot) && (a.slot != b.slot || true) }
        _ => true,
    };
    ok && t.children.iter().all(well_formed)
}
fn lterm(r: &mut Rng, depth: u32) -> String {
    // the numeric names $0..$2 are also the names shapes give to their slots
    let nm = |r: &mut Rng| ["$0", "$1", "$2", "$x"][r.next(4) as usize];
    let v = |r: &mut Rng| format!("(var {})", nm(r));
    if depth == 0 { return if r.next(5) == 0 { "one".to_string() } else { v(r) }; }
    match r.next(12) {
        0 | 1 | 2 => format!("(lam {} {})", nm(r), lterm(r, depth - 1)),
        3 | 4 => format!("(app {} {})", lterm(r, depth - 1), lterm(r, depth - 1)),
        5 => format!("(add {} {})", lterm(r, depth - 1), lterm(r, depth - 1)),
        6 | 7 => format!("(letrev {} {} {})", lterm(r, depth - 1), nm(r), lterm(r, depth - 1)),
        8 => format!("(pin {} {} {})", nm(r), nm(r), lterm(r, depth - 1)),
        9 => { let a = nm(r); let mut b = nm(r); if a == b { b = if a == "$x" { "$0" } else { "$x" }; } format!("(nest {} {} {})", a, b, lterm(r, depth - 1)) }
        10 => format!("(case {} {} {} {})", nm(r), lterm(r, depth - 1), nm(r), lterm(r, depth - 1)),
        _ => v(r),
    }
}
/// the same text with two of the names $1..$3 exchanged everywhere (bound and free occurrences alike): an alpha-variant
/// where only bound names are hit, a different term where free names are hit
fn swap_names(t: &str, a: u64, b: u64) -> String {
    let names = ["$0", "$1", "$2", "$x"];
    let (a, b) = (names[(a as usize) % 4], names[(b as usize) % 4]);
    t.replace(a, "$A").replace(b, a).replace("$A", b)
}
fn alpha_history(texts: &[String], desc: &str) -> Result<(), String> {
    let mut eg = MG::default();
    let terms: Vec<RecExpr<ML>> = texts.iter().map(|t| RecExpr::<ML>::parse(t).unwrap()).filter(well_formed).collect();
    let hs: Vec<AppliedId> = terms.iter().map(|t| eg.add_expr(t.clone())).collect();
    for i in 0..terms.len() {
        let mut fs = Vec::new(); free_of(&terms[i], &mut Vec::new(), &mut fs);
        let mut cs: Vec<Slot> = hs[i].slots().into_iter().collect(); cs.sort(); fs.sort();
        if cs != fs { return Err(format!("C01:syntactic.slots {}: the invocation returned for {} has the slots {:?}, its free slots are {:?} (nothing was united)", desc, terms[i], cs, fs)); }
        for j in (i + 1)..terms.len() {
            let same = de_bruijn(&terms[i], &mut Vec::new()) == de_bruijn(&terms[j], &mut Vec::new());
            let got = eg.eq(&hs[i], &hs[j]);
            if got && !same { return Err(format!("C01:syntactic.eq-sound {}: {} and {} are reported equal although nothing was united and they are not alpha-equivalent", desc, terms[i], terms[j])); }
            if !got && same { return Err(format!("C01:syntactic.alpha {}: {} and {} are alpha-equivalent but reported unequal", desc, terms[i], terms[j])); }
        }
    }
    eg.check();
    Ok(())
}
fn free_slots(re: &RecExpr<ML>, out: &mut Vec<Slot>) {
    if let ML::Var(s) = &re.node { if !out.contains(s) { out.push(*s); } }
    for c in &re.children { free_slots(c, out); }
}
fn subterms(re: &RecExpr<ML>, out: &mut Vec<RecExpr<ML>>) { for c in &re.children { subterms(c, out); } out.push(re.clone()); }

fn operand(r: &mut Rng) -> String {
    let v = |r: &mut Rng| format!("(var ${})", 1 + r.next(3));
    match r.next(8) {
        0 => format!("(add {} {})", v(r), v(r)),
        1 => format!("(mul {} {})", v(r), v(r)),
        2 => format!("(sub {} {})", v(r), v(r)),
        3 => format!("(neg {})", v(r)),
        4 => "one".to_string(),
        _ => v(r),
    }
}
/// an instance of a ring law: two texts that denote the same polynomial
fn law(r: &mut Rng) -> (String, String) {
    let (x, y, z) = (operand(r), operand(r), operand(r));
    match r.next(12) {
        0 => (format!("(add {} {})", x, y), format!("(add {} {})", y, x)),
        1 => (format!("(mul {} {})", x, y), format!("(mul {} {})", y, x)),
        2 => (format!("(add {} (add {} {}))", x, y, z), format!("(add (add {} {}) {})", x, y, z)),
        3 => (format!("(mul {} (mul {} {}))", x, y, z), format!("(mul (mul {} {}) {})", x, y, z)),
        4 => (format!("(mul {} (add {} {}))", x, y, z), format!("(add (mul {} {}) (mul {} {}))", x, y, x, z)),
        5 => (format!("(mul {} zero)", x), "zero".to_string()),
        6 => (format!("(add {} zero)", x), x.clone()),
        7 => (format!("(sub {} {})", x, x), "zero".to_string()),
        8 => (format!("(mul {} one)", x), x.clone()),
        9 => (format!("(neg (neg {}))", x), x.clone()),
        10 => (format!("(add {} (neg {}))", x, x), "zero".to_string()),
        _ => (format!("(sub {} {})", x, y), format!("(add {} (neg {}))", x, y)),
    }
}
fn permute_slots(t: &str, r: &mut Rng) -> String {
    let perms = [[2, 1, 3], [3, 2, 1], [1, 3, 2], [2, 3, 1], [3, 1, 2]];
    let p = perms[r.next(5) as usize];
    let s = t.replace("$1", "$A").replace("$2", "$B").replace("$3", "$C");
    s.replace("$A", &format!("${}", p[0])).replace("$B", &format!("${}", p[1])).replace("$C", &format!("${}", p[2]))
}

fn check_model(eg: &MG, kept: &[RecExpr<ML>], handles: &[AppliedId], desc: &str) -> Result<(), String> {
    for a in 0..handles.len() { for b in (a + 1)..handles.len() {
        if eg.eq(&handles[a], &handles[b]) {
            for k in 0..6u64 {
                let env = move |s: Slot| { let mut h = std::collections::hash_map::DefaultHasher::new(); use std::hash::{Hash, Hasher}; (format!("{}", s), k).hash(&mut h); h.finish() % P };
                let (x, y) = (eval(&kept[a], &env), eval(&kept[b], &env));
                if x != y { return Err(format!("C01:history.eq-sound {}: {} and {} are reported equal, but under assignment #{} they evaluate to {} and {} in Z/{}", desc, kept[a], kept[b], k, x, y, P)); }
            }
        }
    }}
    for (k, h) in handles.iter().enumerate() {
        let f = eg.find_applied_id(h);
        let live: Vec<Slot> = f.slots().into_iter().collect();
        let mut fs = Vec::new(); free_slots(&kept[k], &mut fs);
        for s in fs { if !live.contains(&s) {
            // s was dropped: the value must not depend on it
            for j in 0..4u64 {
                let e1 = move |t: Slot| { let mut h = std::collections::hash_map::DefaultHasher::new(); use std::hash::{Hash, Hasher}; (format!("{}", t), j).hash(&mut h); h.finish() % P };
                let e2 = move |t: Slot| if t == s { (e1(t) + 1 + j) % P } else { e1(t) };
                let (x, y) = (eval(&kept[k], &e1), eval(&kept[k], &e2));
                if x != y { return Err(format!("C01:history.slot-drop-sound {}: the class of {} no longer has the slot {} but the term's value depends on it ({} vs {})", desc, kept[k], s, x, y)); }
            }
        }}
    }
    Ok(())
}

fn run_history(pairs: &[(String, String)], extra: &[String], order: &[usize], desc: &str) -> Result<(), String> {
    let mut eg = MG::default();
    let mut kept: Vec<RecExpr<ML>> = Vec::new();
    let mut tops: Vec<(usize, usize)> = Vec::new();
    for (a, b) in pairs {
        let (ra, rb) = (RecExpr::<ML>::parse(a).unwrap(), RecExpr::<ML>::parse(b).unwrap());
        subterms(&ra, &mut kept); let ia = kept.len() - 1;
        subterms(&rb, &mut kept); let ib = kept.len() - 1;
        tops.push((ia, ib));
    }
    for e in extra { subterms(&RecExpr::<ML>::parse(e).unwrap(), &mut kept); }
    let handles: Vec<AppliedId> = kept.iter().map(|t| eg.add_expr(t.clone())).collect();
    check_model(&eg, &kept, &handles, &format!("{} before any union", desc))?;
    for (n, k) in order.iter().enumerate() {
        let (ia, ib) = tops[*k];
        eg.union(&handles[ia], &handles[ib]);
        check_model(&eg, &kept, &handles, &format!("{} after union #{} ({} ~ {})", desc, n, kept[ia], kept[ib]))?;
    }
    Ok(())
}

pub fn run(only: &[String]) -> Vec<String> {
    let mut fails = Vec::new();
    if !(only.is_empty() || only.iter().any(|x| x == "EGraph::eq")) { return fails; }
    let deep = std::env::var("VERIF_BOUNDED_DEEP").is_ok();
    let mut n = 0;
    let v = |i: u32| format!("(var ${})", i);
    let hand: Vec<(Vec<(String, String)>, Vec<String>)> = vec![
        (vec![(format!("(add {} {})", v(1), v(2)), format!("(add {} {})", v(2), v(1)))], vec![format!("(add {} {})", v(1), v(3)), format!("(mul (add {} {}) (add {} {}))", v(1), v(2), v(2), v(1))]),
        (vec![(format!("(sub {} {})", v(1), v(1)), "zero".to_string())], vec![format!("(sub {} {})", v(1), v(2)), format!("(sub {} {})", v(2), v(2)), format!("(add (sub {} {}) {})", v(3), v(3), v(1))]),
        (vec![(format!("(mul {} zero)", v(1)), "zero".to_string()), (format!("(mul {} {})", v(1), v(2)), format!("(mul {} {})", v(2), v(1)))], vec![format!("(mul {} {})", v(1), v(3)), format!("(mul zero {})", v(2))]),
        (vec![(format!("(add {} (add {} {}))", v(1), v(2), v(3)), format!("(add (add {} {}) {})", v(1), v(2), v(3))), (format!("(add {} {})", v(1), v(2)), format!("(add {} {})", v(2), v(1)))], vec![format!("(add {} (add {} {}))", v(3), v(2), v(1)), format!("(add {} (add {} {}))", v(1), v(1), v(2))]),
        (vec![(format!("(mul {} (add {} {}))", v(1), v(2), v(3)), format!("(add (mul {} {}) (mul {} {}))", v(1), v(2), v(1), v(3))), (format!("(mul {} {})", v(1), v(2)), format!("(mul {} {})", v(2), v(1)))], vec![format!("(mul {} (add {} {}))", v(2), v(1), v(3))]),
        (vec![(format!("(add {} (neg {}))", v(1), v(1)), "zero".to_string()), (format!("(neg (neg {}))", v(2)), v(2))], vec![format!("(add {} (neg {}))", v(1), v(2)), format!("(neg {})", v(1))]),
        (vec![(format!("(sub {} {})", v(1), v(2)), format!("(add {} (neg {}))", v(1), v(2))), (format!("(add {} {})", v(1), v(2)), format!("(add {} {})", v(2), v(1)))], vec![format!("(sub {} {})", v(2), v(1)), format!("(add (neg {}) {})", v(2), v(1))]),
        (vec![(format!("(mul {} one)", v(1)), v(1)), (format!("(mul {} {})", v(1), v(2)), format!("(mul {} {})", v(2), v(1)))], vec![format!("(mul one {})", v(2)), v(2)]),
        (vec![(format!("(add {} zero)", v(1)), v(1)), (format!("(add {} {})", v(1), v(2)), format!("(add {} {})", v(2), v(1)))], vec![format!("(add zero {})", v(2)), format!("(add zero zero)")]),
        (vec![(format!("(mul (sub {} {}) {})", v(1), v(1), v(2)), format!("(mul {} (sub {} {}))", v(2), v(1), v(1))), (format!("(sub {} {})", v(1), v(1)), "zero".to_string()), (format!("(mul {} zero)", v(2)), "zero".to_string())], vec![format!("(mul (sub {} {}) {})", v(3), v(3), v(1))]),
    ];
    let hand: Vec<(Vec<(String, String)>, Vec<String>)> = hand.into_iter().chain(vec![
        // a commutative child, then the child is equated with a term of another shape; parents re-use a slot of the child
        (vec![(format!("(add {} {})", v(1), v(2)), format!("(add {} {})", v(2), v(1))), (format!("(add (add {} {}) zero)", v(1), v(2)), format!("(add {} {})", v(1), v(2)))],
         vec![format!("(mul (add {} {}) {})", v(1), v(2), v(2)), format!("(mul (add {} {}) {})", v(1), v(2), v(1)), format!("(mul (add (add {} {}) zero) {})", v(1), v(2), v(2)), format!("(mul (add (add {} {}) zero) {})", v(1), v(2), v(1)), format!("(sub {} (add {} {}))", v(2), v(1), v(2)), format!("(sub {} (add (add {} {}) zero))", v(2), v(1), v(2))]),
        (vec![(format!("(mul {} {})", v(1), v(2)), format!("(mul {} {})", v(2), v(1))), (format!("(mul (mul {} {}) one)", v(1), v(2)), format!("(mul {} {})", v(1), v(2)))],
         vec![format!("(sub (mul {} {}) {})", v(1), v(2), v(2)), format!("(sub (mul {} {}) {})", v(1), v(2), v(1)), format!("(sub (mul (mul {} {}) one) {})", v(1), v(2), v(2)), format!("(sub (mul (mul {} {}) one) {})", v(1), v(2), v(1))]),
    ]).collect();
    for (pairs, extra) in hand {
        let orders: Vec<Vec<usize>> = if pairs.len() == 1 { vec![vec![0]] } else if pairs.len() == 2 { vec![vec![0, 1], vec![1, 0]] } else { vec![vec![0, 1, 2], vec![2, 1, 0], vec![1, 2, 0]] };
        for order in orders {
            let desc = format!("history: laws {:?}, also inserted {:?}, unions in order {:?}", pairs, extra, order);
            verif_case(desc.clone());
            if let Err(e) = run_history(&pairs, &extra, &order, &desc) { if n < 3 { n += 1; let (c, m) = e.split_once(' ').unwrap(); fails.push(format!("FAIL EGraph::eq {} {}", c, m)); } }
        }
    }
    // rewriting with rules that hold in the model (ring laws, beta reduction by native substitution): everything the
    // e-graph reports equal afterwards must evaluate equally
    {
        let rules: [(&str, &str, &str); 9] = [
            ("add-comm", "(add ?a ?b)", "(add ?b ?a)"), ("mul-comm", "(mul ?a ?b)", "(mul ?b ?a)"), ("add-assoc", "(add ?a (add ?b ?c))", "(add (add ?a ?b) ?c)"),
            ("distr", "(mul ?a (add ?b ?c))", "(add (mul ?a ?b) (mul ?a ?c))"), ("mul-zero", "(mul ?a zero)", "zero"), ("add-zero", "(add ?a zero)", "?a"),
            ("sub-self", "(sub ?a ?a)", "zero"), ("mul-one", "(mul ?a one)", "?a"), ("beta", "(app (lam $1 ?b) ?t)", "?b[(var $1) := ?t]")];
        fn arith(r: &mut Rng, depth: u32, names: &[&str]) -> String {
            let v = |r: &mut Rng| match r.next(6) { 0 => "zero".to_string(), 1 => "one".to_string(), k => format!("(var {})", names[(k as usize) % names.len()]) };
            if depth == 0 { return v(r); }
            match r.next(6) {
                0 => format!("(add {} {})", arith(r, depth - 1, names), arith(r, depth - 1, names)),
                1 => format!("(mul {} {})", arith(r, depth - 1, names), arith(r, depth - 1, names)),
                2 => format!("(sub {} {})", arith(r, depth - 1, names), arith(r, depth - 1, names)),
                // a beta-redex: the body may use the bound name, the outer names, and a name that is ALSO the argument's
                3 | 4 => { let x = ["$1", "$2", "$x"][r.next(3) as usize]; let mut inner: Vec<&str> = names.to_vec(); inner.push(x); format!("(app (lam {} {}) {})", x, arith(r, depth - 1, &inner), arith(r, depth - 1, names)) }
                _ => v(r),
            }
        }
        let rseeds: u64 = if deep { verif_scale(1500) } else { 80 };
        for seed in 1..=rseeds {
            let mut r = Rng(seed.wrapping_mul(0xA0761D6478BD642F).wrapping_add(13));
            let t = arith(&mut r, 3, &["$1", "$2", "$y"]);
            let mask = 1 + r.next((1 << 9) - 1);
            let used: Vec<&str> = (0..9).filter(|i| mask & (1 << i) != 0).map(|i| rules[i].0).collect();
            let rws: Vec<Rewrite<ML, ()>> = (0..9).filter(|i| mask & (1 << i) != 0).map(|i| Rewrite::new(rules[i].0, rules[i].1, rules[i].2)).collect();
            let desc = format!("rewriting (seed {}): term {} rules {:?}", seed, t, used);
            verif_case(desc.clone());
            let mut eg = MG::default();
            let mut kept: Vec<RecExpr<ML>> = Vec::new();
            subterms(&RecExpr::<ML>::parse(&t).unwrap(), &mut kept);
            // function-valued subterms (a literal lambda) have no value in the model: only the others are compared
            let handles_all: Vec<AppliedId> = kept.iter().map(|s| eg.add_expr(s.clone())).collect();
            let idx: Vec<usize> = (0..kept.len()).filter(|i| !matches!(kept[*i].node, ML::Lam(..))).collect();
            let k2: Vec<RecExpr<ML>> = idx.iter().map(|i| kept[*i].clone()).collect();
            let h2: Vec<AppliedId> = idx.iter().map(|i| handles_all[*i].clone()).collect();
            for round in 0..3 {
                if eg.total_number_of_nodes() > 250 { break; }
                apply_rewrites(&mut eg, &rws);
                if let Err(e) = check_model(&eg, &k2, &h2, &format!("{} after round {}", desc, round)) { if n < 3 { n += 1; let (c, m) = e.split_once(' ').unwrap(); fails.push(format!("FAIL EGraph::eq {} {}", c, m)); } break; }
            }
        }
    }
    // binders: nothing is united, equality must be alpha-equivalence
    let hand_l: Vec<Vec<&str>> = vec![
        vec!["(lam $1 (add (var $1) (var $2)))", "(lam $1 (add (var $2) (var $1)))", "(lam $3 (add (var $3) (var $2)))", "(lam $2 (add (var $2) (var $2)))", "(lam $2 (add (var $2) (var $1)))"],
        vec!["(lam $1 (lam $2 (app (var $1) (var $2))))", "(lam $2 (lam $1 (app (var $2) (var $1))))", "(lam $1 (lam $2 (app (var $2) (var $1))))", "(lam $1 (lam $1 (app (var $1) (var $1))))", "(lam $1 (lam $2 (app (var $2) (var $2))))"],
        vec!["(app (lam $1 (var $1)) (var $1))", "(app (lam $2 (var $2)) (var $1))", "(app (lam $1 (var $1)) (var $2))", "(app (lam $1 (var $2)) (var $1))"],
        vec!["(lam $1 (app (var $1) (lam $1 (var $1))))", "(lam $1 (app (var $1) (lam $2 (var $2))))", "(lam $1 (app (var $1) (lam $2 (var $1))))", "(lam $2 (app (var $2) (lam $1 (var $2))))"],
        vec!["(add (lam $1 (var $1)) (lam $1 (var $2)))", "(add (lam $2 (var $2)) (lam $3 (var $2)))", "(add (lam $1 (var $2)) (lam $1 (var $1)))", "(lam $1 (lam $2 (lam $3 (add (var $1) (add (var $2) (var $3))))))", "(lam $3 (lam $2 (lam $1 (add (var $3) (add (var $2) (var $1))))))", "(lam $3 (lam $2 (lam $1 (add (var $1) (add (var $2) (var $3))))))"],
    ];
    let hand_l: Vec<Vec<&str>> = hand_l.into_iter().chain(vec![
        vec!["(letrev (var $1) $x (var $1))", "(letrev (var $1) $x (var $x))", "(letrev (var $0) $x (var $0))", "(letrev (var $1) $0 (var $1))", "(letrev (var $1) $1 (var $1))"],
        vec!["(nest $x $y (var $1))", "(nest $x $y (var $y))", "(nest $x $y (var $x))", "(nest $x $y (var $0))", "(nest $0 $1 (var $1))", "(nest $1 $0 (var $0))"],
        vec!["(pin $1 $x (var $1))", "(pin $1 $x (var $x))", "(pin $0 $x (var $0))", "(pin $1 $0 (var $1))", "(pin $0 $1 (var $1))"],
        vec!["(case $x (var $1) $y (var $1))", "(case $x (var $x) $y (var $y))", "(case $x (var $1) $y (var $y))", "(case $0 (var $0) $1 (var $1))", "(case $x (var $0) $y (var $1))"],
        vec!["(lam $1 (letrev (var $1) $x (var $1)))", "(lam $1 (letrev (var $1) $x (var $x)))", "(lam $0 (nest $x $y (app (var $0) (var $1))))", "(lam $0 (nest $x $y (app (var $0) (var $y))))"],
    ]).collect();
    for texts in hand_l {
        let texts: Vec<String> = texts.iter().map(|x| x.to_string()).collect();
        let desc = format!("inserted (no union): {:?}", texts);
        verif_case(desc.clone());
        if let Err(e) = alpha_history(&texts, &desc) { if n < 3 { n += 1; let (c, m) = e.split_once(' ').unwrap(); fails.push(format!("FAIL EGraph::eq {} {}", c, m)); } }
    }
    let lseeds: u64 = if deep { verif_scale(3000) } else { 150 };
    for seed in 1..=lseeds {
        let mut r = Rng(seed.wrapping_mul(0xD1B54A32D192ED03).wrapping_add(9));
        let mut texts: Vec<String> = Vec::new();
        for _ in 0..3 { let t = lterm(&mut r, 3); let (a, b) = (r.next(4), r.next(4)); if a != b { texts.push(swap_names(&t, a, b)); } texts.push(t); }
        let desc = format!("inserted (no union, seed {}): {:?}", seed, texts);
        verif_case(desc.clone());
        if let Err(e) = alpha_history(&texts, &desc) { if n < 3 { n += 1; let (c, m) = e.split_once(' ').unwrap(); fails.push(format!("FAIL EGraph::eq {} {}", c, m)); } }
    }
    let seeds: u64 = if deep { verif_scale(1500) } else { 60 };
    for seed in 1..=seeds {
        let mut r = Rng(seed.wrapping_mul(0x9E3779B97F4A7C15).wrapping_add(3));
        let pairs: Vec<(String, String)> = (0..4).map(|_| law(&mut r)).collect();
        let mut extra = Vec::new();
        for (a, b) in &pairs { if r.next(2) == 0 { extra.push(permute_slots(a, &mut r)); } if r.next(3) == 0 { extra.push(permute_slots(b, &mut r)); } }
        // parents of the law sides that re-use one of their slots, inserted BEFORE any union (so that they are stored
        // in the shape they had while their child was still asymmetric), and the same parent with another slot
        for (a, b) in &pairs { for side in [a, b] { if r.next(2) == 0 {
            let op = ["mul", "add", "sub"][r.next(3) as usize];
            let v1 = 1 + r.next(3); let v2 = 1 + (v1 % 3);
            extra.push(format!("({} {} (var ${}))", op, side, v1));
            extra.push(format!("({} {} (var ${}))", op, side, v2));
        }}}
        let mut order: Vec<usize> = (0..4).collect();
        for i in (1..4).rev() { let j = r.next(i as u64 + 1) as usize; order.swap(i, j); }
        let desc = format!("history (seed {}): laws {:?}, also inserted {:?}, unions in order {:?}", seed, pairs, extra, order);
        verif_case(desc.clone());
        if let Err(e) = run_history(&pairs, &extra, &order, &desc) { if n < 3 { n += 1; let (c, m) = e.split_once(' ').unwrap(); fails.push(format!("FAIL EGraph::eq {} {}", c, m)); } }
    }
    fails
}
