//! Bounded stand-in for C14 (analysis data is the fixpoint of make/merge over each class) — NOT a proof.
//! host: src/egraph/mod.rs
//! functions: EGraph::update_analysis
//! Five analyses whose merge is a semilattice join: Leaves (the set of numbers occurring in the class's terms, merge = union), MaxDepth (make = min(8, 1 + max of the children's data), merge = max:
//! an INCREASING analysis, for which a cyclic class must climb to the cap), MinSize (make = 1 + sum of the children's data, merge = min),
//! Depth (make = 1 + max of the children's data, merge = min), ConstFold (make evaluates add/mul/sub/number over
//! Z/2^32 when every child has a value, merge = the defined one; its modify hook adds the constant to the class).
//! After EVERY operation, for EVERY live class: (1) the stored datum equals the join of make over all e-nodes of the
//! class computed from the children's CURRENT data; (2) it equals the least fixpoint computed independently by plain
//! iteration over `enodes` (for MinSize this is also compared with the extractor's best cost).
//! Bound: 11 hand-written union histories + 100 (deep: 2000) generated histories per analysis: a term of depth <= 3 over var/lam/app/add/mul/sub/g/
//! numbers with 3 slot names, all subterms inserted; then either <= 3 rounds of a fixed-seed subset of 12 rules that
//! hold in Z/2^32 (ring laws, beta with let, rules that make slots redundant) or 6 unions of ring-law instances.
//! also-with-features: checks
use crate::*;

define_language! {
    pub enum AL {
        Var(Slot) = "var",
        Lam(Bind<AppliedId>) = "lam",
        App(AppliedId, AppliedId) = "app",
        Let(Bind<AppliedId>, AppliedId) = "let",
        Add(AppliedId, AppliedId) = "add",
        Mul(AppliedId, AppliedId) = "mul",
        Sub(AppliedId, AppliedId) = "sub",
        G(AppliedId) = "g",
        Number(u32),
    }
}

#[derive(Default)] pub struct MinSize;
impl Analysis<AL> for MinSize {
    type Data = u64;
    fn make(eg: &EGraph<AL, Self>, n: &AL) -> u64 { let mut s = 1u64; for c in n.applied_id_occurrences() { s = s.saturating_add(*eg.analysis_data(c.id)); } s }
    fn merge(l: u64, r: u64) -> u64 { l.min(r) }
}
#[derive(Default)] pub struct Depth;
impl Analysis<AL> for Depth {
    type Data = u64;
    fn make(eg: &EGraph<AL, Self>, n: &AL) -> u64 { let mut s = 0u64; for c in n.applied_id_occurrences() { s = s.max(*eg.analysis_data(c.id)); } s.saturating_add(1) }
    fn merge(l: u64, r: u64) -> u64 { l.min(r) }
}
/// an INCREASING analysis (merge = max): the largest depth of a term of the class, capped; a cyclic class reaches the cap
pub const DEPTH_CAP: u64 = 8;
#[derive(Default)] pub struct MaxDepth;
impl Analysis<AL> for MaxDepth {
    type Data = u64;
    fn make(eg: &EGraph<AL, Self>, n: &AL) -> u64 { let mut s = 0u64; for c in n.applied_id_occurrences() { s = s.max(*eg.analysis_data(c.id)); } (s + 1).min(DEPTH_CAP) }
    fn merge(l: u64, r: u64) -> u64 { l.max(r) }
}
/// a SET-valued analysis (merge = union): the numbers that occur in some term of the class.  Its datum grows exactly when a class
/// gains a term with a new leaf - also in the middle of `handle_pending`, which is what exposed defect F17 (c354467)
#[derive(Default)] pub struct Leaves;
impl Analysis<AL> for Leaves {
    type Data = std::collections::BTreeSet<u32>;
    fn make(eg: &EGraph<AL, Self>, n: &AL) -> Self::Data { let mut s = Self::Data::new(); if let AL::Number(x) = n { s.insert(*x); } for c in n.applied_id_occurrences() { s.extend(eg.analysis_data(c.id).iter().cloned()); } s }
    fn merge(l: Self::Data, r: Self::Data) -> Self::Data { l.union(&r).cloned().collect() }
}
#[derive(Default)] pub struct ConstFold;
fn fold_node(n: &AL, get: &dyn Fn(Id) -> Option<u32>) -> Option<u32> {
    match n {
        AL::Number(x) => Some(*x),
        AL::Add(a, b) => Some(get(a.id)?.wrapping_add(get(b.id)?)),
        AL::Mul(a, b) => Some(get(a.id)?.wrapping_mul(get(b.id)?)),
        AL::Sub(a, b) => Some(get(a.id)?.wrapping_sub(get(b.id)?)),
        _ => None,
    }
}
impl Analysis<AL> for ConstFold {
    type Data = Option<u32>;
    fn make(eg: &EGraph<AL, Self>, n: &AL) -> Option<u32> { fold_node(n, &|i| *eg.analysis_data(i)) }
    fn merge(l: Option<u32>, r: Option<u32>) -> Option<u32> { match (l, r) { (Some(x), Some(_)) => Some(x), (Some(x), None) => Some(x), (None, y) => y } }
    fn modify(eg: &mut EGraph<AL, Self>, i: Id) {
        if let Some(x) = *eg.analysis_data(i) { let a = eg.add(AL::Number(x)); let b = eg.mk_identity_applied_id(i); eg.union(&a, &b); }
    }
}

struct Rng(u64);
impl Rng { fn next(&mut self, n: u64) -> u64 { self.0 ^= self.0 << 13; self.0 ^= self.0 >> 7; self.0 ^= self.0 << 17; self.0 % n } }
fn term(r: &mut Rng, depth: u32) -> String {
    let v = |r: &mut Rng| format!("(var ${})", 1 + r.next(3));
    if depth == 0 { return match r.next(5) { 0 => "0".into(), 1 => "1".into(), 2 => format!("{}", 2 + r.next(3)), _ => v(r) }; }
    match r.next(9) {
        0 | 1 => format!("(mul {} {})", term(r, depth - 1), term(r, depth - 1)),
        2 | 3 => format!("(add {} {})", term(r, depth - 1), term(r, depth - 1)),
        4 => format!("(sub {} {})", term(r, depth - 1), term(r, depth - 1)),
        5 => format!("(app (lam ${} {}) {})", 1 + r.next(3), term(r, depth - 1), term(r, depth - 1)),
        6 => format!("(lam ${} {})", 1 + r.next(3), term(r, depth - 1)),
        7 => format!("(g {})", term(r, depth - 1)),
        _ => v(r),
    }
}
const RULES: [(&str, &str, &str); 12] = [
    ("add-comm", "(add ?a ?b)", "(add ?b ?a)"),
    ("mul-comm", "(mul ?a ?b)", "(mul ?b ?a)"),
    ("add-assoc", "(add ?a (add ?b ?c))", "(add (add ?a ?b) ?c)"),
    ("distr", "(mul ?a (add ?b ?c))", "(add (mul ?a ?b) (mul ?a ?c))"),
    ("mul-zero", "(mul ?a 0)", "0"),
    ("add-zero", "(add ?a 0)", "?a"),
    ("mul-one", "(mul ?a 1)", "?a"),
    ("sub-self", "(sub ?a ?a)", "0"),
    ("beta", "(app (lam $1 ?b) ?t)", "(let $1 ?b ?t)"),
    ("let-var-same", "(let $1 (var $1) ?e)", "?e"),
    ("g-elim", "(g ?a)", "?a"),
    ("sub-def", "(sub ?a ?b)", "(add ?a (mul 4294967295 ?b))"),
];
fn law(r: &mut Rng) -> (String, String) {
    let (x, y, z) = (term(r, 1), term(r, 1), term(r, 1));
    match r.next(8) {
        0 => (format!("(add {} {})", x, y), format!("(add {} {})", y, x)),
        1 => (format!("(mul {} {})", x, y), format!("(mul {} {})", y, x)),
        2 => (format!("(add {} (add {} {}))", x, y, z), format!("(add (add {} {}) {})", x, y, z)),
        3 => (format!("(mul {} (add {} {}))", x, y, z), format!("(add (mul {} {}) (mul {} {}))", x, y, x, z)),
        4 => (format!("(mul {} 0)", x), "0".to_string()),
        5 => (format!("(add {} 0)", x), x.clone()),
        6 => (format!("(sub {} {})", x, x), "0".to_string()),
        _ => (format!("(mul {} 1)", x), x.clone()),
    }
}
fn subterms(re: &RecExpr<AL>, out: &mut Vec<RecExpr<AL>>) { for c in &re.children { subterms(c, out); } out.push(re.clone()); }

/// the three analyses behind one interface, so that one history generator serves all
trait Ref: Analysis<AL> + Default + 'static where Self::Data: std::fmt::Debug {
    const NAME: &'static str;
    /// make from reference data; None = a child has no reference value yet
    fn ref_make(n: &AL, get: &dyn Fn(Id) -> Option<Self::Data>) -> Option<Self::Data>;
    /// strictly better (the iteration keeps the better one)
    fn better(new: &Self::Data, old: &Self::Data) -> bool;
    /// how the reference iteration combines a class's value so far with a newly made one (default: the better one replaces it)
    fn ref_join(_old: &Self::Data, new: Self::Data) -> Self::Data { new }
    /// what the modify hook must have established for class i (None = nothing to check)
    fn hook_done(_eg: &EGraph<AL, Self>, _i: Id) -> Option<String> { None }
}
impl Ref for MinSize {
    const NAME: &'static str = "MinSize";
    fn ref_make(n: &AL, get: &dyn Fn(Id) -> Option<u64>) -> Option<u64> { let mut s = 1u64; for c in n.applied_id_occurrences() { s = s.saturating_add(get(c.id)?); } Some(s) }
    fn better(new: &u64, old: &u64) -> bool { new < old }
}
impl Ref for Depth {
    const NAME: &'static str = "Depth";
    fn ref_make(n: &AL, get: &dyn Fn(Id) -> Option<u64>) -> Option<u64> { let mut s = 0u64; for c in n.applied_id_occurrences() { s = s.max(get(c.id)?); } Some(s.saturating_add(1)) }
    fn better(new: &u64, old: &u64) -> bool { new < old }
}
impl Ref for MaxDepth {
    const NAME: &'static str = "MaxDepth";
    fn ref_make(n: &AL, get: &dyn Fn(Id) -> Option<u64>) -> Option<u64> { let mut s = 0u64; for c in n.applied_id_occurrences() { if let Some(d) = get(c.id) { s = s.max(d); } } Some((s + 1).min(DEPTH_CAP)) }
    fn better(new: &u64, old: &u64) -> bool { new > old }
}
impl Ref for Leaves {
    const NAME: &'static str = "Leaves";
    fn ref_make(n: &AL, get: &dyn Fn(Id) -> Option<Self::Data>) -> Option<Self::Data> { let mut s = Self::Data::new(); if let AL::Number(x) = n { s.insert(*x); } for c in n.applied_id_occurrences() { if let Some(d) = get(c.id) { s.extend(d); } } Some(s) }
    fn better(new: &Self::Data, old: &Self::Data) -> bool { !new.is_subset(old) }
    fn ref_join(old: &Self::Data, new: Self::Data) -> Self::Data { old.union(&new).cloned().collect() }
}
impl Ref for ConstFold {
    const NAME: &'static str = "ConstFold";
    fn ref_make(n: &AL, get: &dyn Fn(Id) -> Option<Option<u32>>) -> Option<Option<u32>> { Some(fold_node(n, &|i| get(i).flatten())) }
    fn better(new: &Option<u32>, old: &Option<u32>) -> bool { new.is_some() && old.is_none() }
    fn hook_done(eg: &EGraph<AL, Self>, i: Id) -> Option<String> {
        let c = (*eg.analysis_data(i))?;
        match eg.lookup(&AL::Number(c)) { Some(a) if a.id == i => None, other => Some(format!("class {:?} has the datum Some({}) but the constant {} is in {:?}: the modify hook was not run for it", i, c, c, other.map(|a| a.id))) }
    }
}

fn check_analysis<N: Ref>(eg: &EGraph<AL, N>, desc: &str) -> Result<(), String> where N::Data: std::fmt::Debug {
    // (1) the datum is the join of make over the class's e-nodes, from the children's current data
    for i in eg.ids() {
        let mut acc: Option<N::Data> = None;
        for n in eg.enodes(i) { let m = N::make(eg, &n); acc = Some(match acc { None => m, Some(a) => N::merge(a, m) }); }
        let Some(j) = acc else { return Err(format!("C14:analysis.join-of-nodes {} ({}): class {:?} has no e-node", desc, N::NAME, i)); };
        if &j != eg.analysis_data(i) { return Err(format!("C14:analysis.join-of-nodes {} ({}): class {:?} stores {:?}, the join of make over its e-nodes {:?} is {:?}", desc, N::NAME, i, eg.analysis_data(i), eg.enodes(i), j)); }
    }
    for i in eg.ids() { if let Some(m) = N::hook_done(eg, i) { return Err(format!("C14:analysis.modify-run {} ({}): {}", desc, N::NAME, m)); } }
    // (2) the least fixpoint, by plain iteration
    let mut reference: std::collections::HashMap<Id, N::Data> = Default::default();
    loop {
        let mut changed = false;
        for i in eg.ids() { for n in eg.enodes(i) {
            let r2 = &reference;
            let Some(m) = N::ref_make(&n, &|c: Id| r2.get(&eg.find_id(c)).cloned()) else { continue };
            let upd = match reference.get(&i) { None => true, Some(old) => N::better(&m, old) };
            if upd { let v = match reference.get(&i) { None => m, Some(old) => N::ref_join(old, m) }; reference.insert(i, v); changed = true; }
        }}
        if !changed { break; }
    }
    for i in eg.ids() {
        match reference.get(&i) {
            None => return Err(format!("C14:analysis.least-fixpoint {} ({}): class {:?} has no finite term", desc, N::NAME, i)),
            Some(r) => if r != eg.analysis_data(i) { return Err(format!("C14:analysis.least-fixpoint {} ({}): class {:?} stores {:?}, the independently computed value is {:?}", desc, N::NAME, i, eg.analysis_data(i), r)); }
        }
    }
    Ok(())
}

fn history<N: Ref>(seed: u64, rewriting: bool) -> Result<(), String> where N::Data: std::fmt::Debug {
    let mut r = Rng(seed.wrapping_mul(0x9E3779B97F4A7C15).wrapping_add(5));
    let mut eg: EGraph<AL, N> = EGraph::default();
    if rewriting {
        let t = term(&mut r, 3);
        let mask = r.next(1 << 12);
        let used: Vec<&str> = (0..12).filter(|i| mask & (1 << i) != 0).map(|i| RULES[i].0).collect();
        let rws: Vec<Rewrite<AL, N>> = (0..12).filter(|i| mask & (1 << i) != 0).map(|i| Rewrite::new(RULES[i].0, RULES[i].1, RULES[i].2)).collect();
        let mut subs = Vec::new(); subterms(&RecExpr::<AL>::parse(&t).unwrap(), &mut subs);
        for s in subs { eg.add_expr(s); }
        let desc = format!("term {} rules {:?} (seed {})", t, used, seed);
        verif_case(format!("{}: {}", N::NAME, desc));
        check_analysis(&eg, &format!("{} after the insertions", desc))?;
        for round in 0..3 {
            if eg.total_number_of_nodes() > 250 { break; }
            apply_rewrites(&mut eg, &rws);
            check_analysis(&eg, &format!("{} after round {}", desc, round))?;
        }
    } else {
        let pairs: Vec<(String, String)> = (0..6).map(|_| law(&mut r)).collect();
        let desc = format!("unions of the law instances {:?} (seed {})", pairs, seed);
        verif_case(format!("{}: {}", N::NAME, desc));
        let mut hs = Vec::new();
        for (a, b) in &pairs { let x = eg.add_expr(RecExpr::<AL>::parse(a).unwrap()); let y = eg.add_expr(RecExpr::<AL>::parse(b).unwrap()); hs.push((x, y)); }
        check_analysis(&eg, &format!("{} after the insertions", desc))?;
        for (k, (x, y)) in hs.iter().enumerate() {
            eg.union(x, y);
            check_analysis(&eg, &format!("{} after union #{}", desc, k))?;
        }
    }
    Ok(())
}

/// hand-written union histories: (terms inserted in this order, unions between them)
fn hand_written() -> Vec<(Vec<&'static str>, Vec<(usize, usize)>)> {
    vec![
        // the surviving class of a union gets a better datum AND inherits a symmetry in the same rebuild; it has parents
        (vec!["(add (var $1) (var $2))", "(add (var $2) (var $1))", "(sub (g (var $1)) (g (var $2)))", "(g (sub (g (var $1)) (g (var $2))))", "(mul (sub (g (var $1)) (g (var $2))) 1)", "(g (g (sub (g (var $1)) (g (var $2)))))"], vec![(0, 1), (0, 2)]),
        (vec!["(mul (var $1) (var $2))", "(mul (var $2) (var $1))", "(add (add (var $1) 0) (add (var $2) 0))", "(g (add (add (var $1) 0) (add (var $2) 0)))", "(sub (add (add (var $1) 0) (add (var $2) 0)) (var $1))", "(g (g (g (add (add (var $1) 0) (add (var $2) 0)))))"], vec![(0, 1), (0, 2)]),
        // a constant reaches a class through a grand-child only
        (vec!["(add (mul (var $1) 0) 2)", "(mul (var $1) 0)", "0", "(g (add (mul (var $1) 0) 2))", "(mul (g (add (mul (var $1) 0) 2)) 3)"], vec![(1, 2)]),
        // a class merged away while an analysis-only update of one of its e-nodes is pending (several copies: hash order)
        (vec!["(g (var $1))", "(add (var $1) 0)", "(mul (g (var $1)) (add (var $1) 0))", "(g (mul (g (var $1)) (add (var $1) 0)))", "(sub (g (var $2)) (add (var $2) 0))", "(g (sub (g (var $2)) (add (var $2) 0)))", "(add (g (var $3)) (add (var $3) 0))", "(var $1)"], vec![(1, 7), (0, 7)]),
        // a modify hook whose own union creates a congruence that changes another class's datum (re-entrant rebuild)
        (vec!["(add 3 (g 8))", "10", "(mul (add (add (g 7) 2) (g 8)) 2)", "(g 7)", "1", "(mul (mul (add (add (g 7) 2) (g 8)) 2) 5)", "(add (mul (mul (add (add (g 7) 2) (g 8)) 2) 5) 1)"], vec![(0, 1), (3, 4)]),
        (vec!["(mul 2 (g 1))", "6", "(add (mul (add (g 2) 1) (g 1)) 1)", "(g 2)", "1", "(sub (add (mul (add (g 2) 1) (g 1)) 1) 7)"], vec![(0, 1), (3, 4)]),
        // a class merged into the class of one of its own parents, the child being the side that dies (defect fixed by 56fe5e8)
        (vec!["0", "(g 0)", "(mul (g 0) (g 0))", "(sub (g 0) (g 0))"], vec![(0, 1)]),
        (vec!["(var $1)", "(g (var $1))", "(mul (g (var $1)) (g (var $2)))", "(sub (g (var $1)) (g (var $1)))", "(lam $1 (g (var $1)))"], vec![(1, 0)]),
        // an e-node that is a usage of its OWN class and has a second child whose class dies (defect F17, fixed by c354467: the
        // stale shape stayed on the worklist and rebuild panicked; needs a datum that changes at that moment: Leaves)
        (vec!["0", "(add 0 (g 2))", "(g 2)", "(g 3)", "(g (g 3))", "(mul (g 3) (g 3))", "(sub (g 3) 4)"], vec![(0, 1), (2, 3)]),
        (vec!["(var $1)", "(add (var $1) (g 2))", "(g 2)", "(g 3)", "(g (g 3))", "(mul (g 3) (g 3))", "(sub (g 3) 4)"], vec![(0, 1), (2, 3)]),
        // a cyclic class
        (vec!["(g (add (var $1) 1))", "(add (var $1) 1)", "(mul (g (add (var $1) 1)) 2)"], vec![(0, 1)]),
    ]
}
fn hand_history<N: Ref>(adds: &[&str], unions: &[(usize, usize)]) -> Result<(), String> where N::Data: std::fmt::Debug {
    let mut eg: EGraph<AL, N> = EGraph::default();
    let desc = format!("history add {:?}; union {:?}", adds, unions);
    verif_case(format!("{}: {}", N::NAME, desc));
    let hs: Vec<AppliedId> = adds.iter().map(|t| eg.add_expr(RecExpr::<AL>::parse(t).unwrap())).collect();
    check_analysis(&eg, &format!("{} after the insertions", desc))?;
    for (k, (a, b)) in unions.iter().enumerate() {
        eg.union(&hs[*a], &hs[*b]);
        check_analysis(&eg, &format!("{} after union #{}", desc, k))?;
    }
    Ok(())
}

fn run_for<N: Ref>(mut fails: &mut Vec<String>, deep: bool) where N::Data: std::fmt::Debug {
    let mut n = 0;
    for (adds, unions) in hand_written() {
        if let Err(e) = hand_history::<N>(&adds, &unions) { if n < 3 { n += 1; let (c, m) = e.split_once(' ').unwrap(); fails.push(format!("FAIL EGraph::update_analysis {} {}", c, m)); } }
    }
    let seeds: u64 = if deep { verif_scale(2000) } else { 100 };
    for seed in 1..=seeds { for rewriting in [true, false] {
        if let Err(e) = history::<N>(seed, rewriting) { if n < 3 { n += 1; let (c, m) = e.split_once(' ').unwrap(); fails.push(format!("FAIL EGraph::update_analysis {} {}", c, m)); } }
    }}
}

pub fn run(only: &[String]) -> Vec<String> {
    let mut fails = Vec::new();
    if !(only.is_empty() || only.iter().any(|x| x == "EGraph::update_analysis")) { return fails; }
    let deep = std::env::var("VERIF_BOUNDED_DEEP").is_ok();
    run_for::<MinSize>(&mut fails, deep);
    run_for::<Depth>(&mut fails, deep);
    run_for::<MaxDepth>(&mut fails, deep);
    run_for::<Leaves>(&mut fails, deep);
    run_for::<ConstFold>(&mut fails, deep);
    fails
}
