//! Bounded stand-in / failing-input search for unit U6 (extraction order, default cost) — NOT a proof.
//! host: src/extract/with_ord.rs
//! functions: AstSize::cost Extractor::extract WithOrdRev::cmp WithOrdRev::partial_cmp
//! Bound: AstSize::cost on nodes with 0..4 children and child costs from {0, 1, 2, 7, u64::MAX-1, u64::MAX};
//! WithOrdRev::partial_cmp / cmp on all pairs of costs from {0, 1, 2, 3, 10, u64::MAX}.
//! Extractor::new / Extractor::extract (outside the contracts: BinaryHeap, class_nf, usages): 21 hand-written e-graphs
//! with redundant slots / symmetric classes plus 150 (deep: 3000) pseudo-random ones (a term of depth <= 3 over a
//! lambda/arithmetic language, a random subset of 17 rules, <= 3 rounds, <= 300 nodes); after every round EVERY class is
//! extracted with AstSize (public entry point) and with five cost functions of the kinds C06 names (size, depth-weighted
//! size 1 + 2*children, per-operator weights where a constant can be heavier than a composite term, position weights, both): the term must look
//! up to the class it was extracted from, its recomputed cost must equal the reported best cost and the least cost
//! computed by an independent fixpoint over `enodes` (Bellman-Ford, no heap, no class_nf).
//! also-with-features: checks
use crate::*;
use super::*;
use std::cmp::Ordering;

define_language! {
    pub enum CL {
        Leaf(Slot) = "leaf",
        One(AppliedId) = "one",
        Two(AppliedId, AppliedId) = "two",
        Three(AppliedId, AppliedId, AppliedId) = "three",
        Four(AppliedId, AppliedId, AppliedId, AppliedId) = "four",
    }
}

fn id(i: usize) -> AppliedId { AppliedId::new(Id(i), SlotMap::new()) }

define_language! {
    pub enum XL {
        Var(Slot) = "var",
        Lam(Bind<AppliedId>) = "lam",
        App(AppliedId, AppliedId) = "app",
        Let(Bind<AppliedId>, AppliedId) = "let",
        Add(AppliedId, AppliedId) = "add",
        Mul(AppliedId, AppliedId) = "mul",
        Sub(AppliedId, AppliedId) = "sub",
        F3(AppliedId, AppliedId, AppliedId) = "f3",
        G(AppliedId) = "g",
        Zero() = "zero",
        One() = "one",
    }
}
type XG = EGraph<XL, ()>;
struct Rng(u64);
impl Rng { fn next(&mut self, n: u64) -> u64 { self.0 ^= self.0 << 13; self.0 ^= self.0 >> 7; self.0 ^= self.0 << 17; self.0 % n } }
fn xterm(r: &mut Rng, depth: u32, ns: u64) -> String {
    let v = |r: &mut Rng| format!("(var ${})", 1 + r.next(ns));
    if depth == 0 { return match r.next(5) { 0 => "zero".into(), 1 => "one".into(), _ => v(r) }; }
    match r.next(9) {
        0 => format!("(mul {} {})", xterm(r, depth - 1, ns), xterm(r, depth - 1, ns)),
        1 => format!("(add {} {})", xterm(r, depth - 1, ns), xterm(r, depth - 1, ns)),
        2 => format!("(f3 {} {} {})", xterm(r, depth - 1, ns), v(r), v(r)),
        3 | 4 => format!("(app {} {})", xterm(r, depth - 1, ns), xterm(r, depth - 1, ns)),
        5 | 6 => format!("(lam ${} {})", 1 + r.next(ns), xterm(r, depth - 1, ns)),
        7 => format!("(sub {} {})", xterm(r, depth - 1, ns), xterm(r, depth - 1, ns)),
        _ => v(r),
    }
}
const XRULES: [(&str, &str, &str); 17] = [
    ("beta", "(app (lam $1 ?b) ?t)", "(let $1 ?b ?t)"),
    ("let-var-same", "(let $1 (var $1) ?e)", "?e"),
    ("sub-self", "(sub ?a ?a)", "zero"),
    ("add-comm", "(add ?a ?b)", "(add ?b ?a)"),
    ("mul-comm", "(mul ?a ?b)", "(mul ?b ?a)"),
    ("add-assoc", "(add ?a (add ?b ?c))", "(add (add ?a ?b) ?c)"),
    ("mul-zero", "(mul ?a zero)", "zero"),
    ("mul-one", "(mul ?a one)", "?a"),
    ("add-zero", "(add ?a zero)", "?a"),
    ("distr", "(mul ?a (add ?b ?c))", "(add (mul ?a ?b) (mul ?a ?c))"),
    ("f3-rot", "(f3 ?a ?b ?c)", "(f3 ?b ?c ?a)"),
    ("f3-forget", "(f3 ?a ?b ?c)", "(f3 ?a ?b zero)"),
    ("forget", "(mul ?a ?b)", "(mul ?a (var $7))"),
    ("subst-beta", "(app (lam $1 ?b) ?t)", "?b[(var $1) := ?t]"),
    ("g-intro", "(sub ?a ?b)", "(g (sub ?a ?b))"),
    ("g-elim", "(g (g ?a))", "?a"),
    // gives a class that holds a constant AND a composite term that is cheaper under the per-operator weights
    ("zero-alt", "zero", "(g one)"),
];
/// cost functions of the three kinds C06 names; all are `own(node) + mult * sum(children)`, strictly monotone
#[derive(Clone, Copy, Debug)]
struct Lin { name: &'static str, mult: u64, weighted: bool, positional: bool, swapped: bool }
impl Lin {
    /// the weight of the k-th child
    fn factor(&self, k: usize) -> u64 { if self.positional { 1 + 2 * k as u64 } else { self.mult } }
    fn own(&self, n: &XL) -> u64 {
        if !self.weighted { return 1; }
        // a constant may be heavier than a composite term
        // `swapped`: the two constants trade weights - a class that holds both leaves is then asked for under both orders of preference
        if self.swapped { return match n { XL::Zero() => 2, XL::One() => 9, XL::Var(_) => 5, XL::Mul(..) => 2, XL::Sub(..) => 3, XL::Lam(..) => 2, _ => 1 }; }
        match n { XL::Zero() => 10, XL::One() => 4, XL::Var(_) => 5, XL::Mul(..) => 2, XL::Sub(..) => 3, XL::Lam(..) => 2, _ => 1 }
    }
}
impl CostFunction<XL> for Lin {
    type Cost = u64;
    fn cost<C>(&self, enode: &XL, costs: C) -> u64 where C: Fn(Id) -> u64 {
        let mut s = self.own(enode);
        for (k, x) in enode.applied_id_occurrences().into_iter().enumerate() { s = s.saturating_add(self.factor(k).saturating_mul(costs(x.id))); }
        s
    }
}
const COSTS: [Lin; 6] = [Lin { name: "AstSize-like", mult: 1, weighted: false, positional: false, swapped: false }, Lin { name: "depth-weighted (1 + 2*children)", mult: 2, weighted: false, positional: false, swapped: false }, Lin { name: "per-operator weights", mult: 1, weighted: true, positional: false, swapped: false },
    Lin { name: "position weights (child k counts 1 + 2k times)", mult: 1, weighted: false, positional: true, swapped: false }, Lin { name: "per-operator and position weights", mult: 1, weighted: true, positional: true, swapped: false },
    Lin { name: "per-operator weights, the two constants' weights swapped", mult: 1, weighted: true, positional: false, swapped: true }];
/// least cost per class by a plain fixpoint over the e-nodes (independent of Extractor)
fn reference_costs(eg: &XG, cf: &Lin) -> std::collections::HashMap<Id, u64> {
    let mut cost: std::collections::HashMap<Id, u64> = Default::default();
    loop {
        let mut changed = false;
        for i in eg.ids() { for n in eg.enodes(i) {
            let mut c: u64 = cf.own(&n); let mut known = true;
            for (k, ch) in n.applied_id_occurrences().into_iter().enumerate() { match cost.get(&eg.find_id(ch.id)) { Some(x) => c = c.saturating_add(cf.factor(k).saturating_mul(*x)), None => known = false } }
            if known && cost.get(&i).map(|x| c < *x).unwrap_or(true) { cost.insert(i, c); changed = true; }
        }}
        if !changed { return cost; }
    }
}
/// invocations returned by earlier insertions (their classes may have been merged away or have lost slots since): the
/// extracted term must denote exactly the invocation asked for
fn old_handles_ok(eg: &XG, handles: &[(String, AppliedId)]) -> Result<(), String> {
    for (t, h) in handles {
        let ex = ast_size_extract(h, eg);
        match crate::lookup_rec_expr(&ex, eg) {
            None => return Err(format!("C06:extract.member the handle {:?} returned for {}: the extracted term {} is not in the e-graph", h, t, ex)),
            Some(b) => if !eg.eq(h, &b) { return Err(format!("C06:extract.member the handle {:?} returned for {} (now {:?}): the extracted term {} denotes {:?}", h, t, eg.find_applied_id(h), ex, b)); }
        }
    }
    Ok(())
}
fn subterms_x(re: &RecExpr<XL>, out: &mut Vec<RecExpr<XL>>) { for c in &re.children { subterms_x(c, out); } out.push(re.clone()); }
fn extraction_ok(eg: &XG) -> Result<usize, String> {
    let mut k = 0;
    // the crate's own AstSize through the public entry point
    let reference = reference_costs(eg, &COSTS[0]);
    for i in eg.ids() {
        let a = eg.mk_identity_applied_id(i);
        let t = ast_size_extract(&a, eg);
        k += 1;
        match crate::lookup_rec_expr(&t, eg) {
            None => return Err(format!("C06:extract.member class {:?}: the extracted term {} is not in the e-graph", i, t)),
            Some(b) => if !eg.eq(&a, &b) { return Err(format!("C06:extract.member class {:?}: the extracted term {} denotes {:?}, not {:?}", i, t, b, a)); }
        }
        let want = reference.get(&i).cloned();
        if Some(AstSize.cost_rec(&t)) != want { return Err(format!("C06:extract.cheapest class {:?} (AstSize): the extracted term {} costs {}, the least cost of a term of the class is {:?}", i, t, AstSize.cost_rec(&t), want)); }
    }
    // the same class asked for under other argument names, among them the numeric names $0, $1, .. that shapes use for
    // their bound slots (a binder of the stored best node must not capture an argument of the query)
    for i in eg.ids() {
        let mut cs: Vec<Slot> = eg.slots(i).into_iter().collect(); cs.sort();
        if cs.is_empty() { continue; }
        let mut queries: Vec<SlotMap> = Vec::new();
        for base in [0u32, 1, 7] { queries.push(cs.iter().enumerate().map(|(k, s)| (*s, Slot::numeric(base + k as u32))).collect()); }
        // the class's OWN slots, rotated and (first two) swapped: a permutation of them is not the identity
        if cs.len() >= 2 {
            queries.push(cs.iter().enumerate().map(|(k, s)| (*s, cs[(k + 1) % cs.len()])).collect());
            let mut sw = cs.clone(); sw.swap(0, 1);
            queries.push(cs.iter().zip(sw.iter()).map(|(s, t)| (*s, *t)).collect());
        }
        for m in queries {
            let a = AppliedId::new(i, m);
            let t = ast_size_extract(&a, eg);
            k += 1;
            match crate::lookup_rec_expr(&t, eg) {
                None => return Err(format!("C06:extract.member class {:?} asked for as {:?}: the extracted term {} is not in the e-graph", i, a, t)),
                Some(b) => if !eg.eq(&a, &b) { return Err(format!("C06:extract.member class {:?} asked for as {:?}: the extracted term {} denotes {:?}", i, a, t, b)); }
            }
        }
    }
    for cf in COSTS {
        let reference = reference_costs(eg, &cf);
        let ex = Extractor::<XL, Lin>::new(eg, cf);
        for i in eg.ids() {
            let a = eg.mk_identity_applied_id(i);
            let t = ex.extract(&a, eg);
            k += 1;
            match crate::lookup_rec_expr(&t, eg) {
                None => return Err(format!("C06:extract.member class {:?} ({}): the extracted term {} is not in the e-graph", i, cf.name, t)),
                Some(b) => if !eg.eq(&a, &b) { return Err(format!("C06:extract.member class {:?} ({}): the extracted term {} denotes {:?}, not {:?}", i, cf.name, t, b, a)); }
            }
            let got = cf.cost_rec(&t);
            let best = ex.get_best_cost::<()>(&a);
            if got != best { return Err(format!("C06:extract.cost-agrees class {:?} ({}): the extracted term {} costs {} but the reported best cost is {}", i, cf.name, t, got, best)); }
            let want = reference.get(&i).cloned();
            if Some(got) != want { return Err(format!("C06:extract.cheapest class {:?} ({}): the extracted term {} costs {}, the least cost of a term of the class is {:?}", i, cf.name, t, got, want)); }
        }
    }
    Ok(k)
}
pub fn run(only: &[String]) -> Vec<String> {
    let mut fails = Vec::new();
    let want = |f: &str| only.is_empty() || only.iter().any(|x| x == f);
    if want("AstSize::cost") {
        let vals: [u64; 6] = [0, 1, 2, 7, u64::MAX - 1, u64::MAX];
        let nodes = vec![CL::Leaf(Slot::numeric(0)), CL::One(id(0)), CL::Two(id(0), id(1)), CL::Three(id(0), id(1), id(2)), CL::Four(id(0), id(1), id(2), id(3))];
        let mut n = 0;
        for node in &nodes {
            let k = node.applied_id_occurrences().len();
            let total = vals.len().pow(k as u32);
            for code in 0..total {
                let mut c = code; let mut cs = Vec::new();
                for _ in 0..k { cs.push(vals[c % vals.len()]); c /= vals.len(); }
                verif_case(format!("node {:?} child costs {:?}", node, cs));
                let got = AstSize.cost(node, |i: Id| cs[i.0]);
                let mut e: u64 = 1; for x in &cs { e = e.saturating_add(*x); }
                if got != e && n < 3 { n += 1; fails.push(format!("FAIL AstSize::cost C06:ast_size.sum node {:?} with child costs {:?}: got {} expected {}", node, cs, got, e)); }
            }
        }
    }
    if want("Extractor::new") || want("Extractor::extract") {
        let deep = std::env::var("VERIF_BOUNDED_DEEP").is_ok();
        let mut n = 0;
        let hand: Vec<(Vec<&str>, Vec<(usize, usize)>)> = vec![
            (vec!["(mul (var $1) (var $2))", "(mul (var $1) (var $3))"], vec![(0, 1)]),
            (vec!["(sub (var $1) (var $1))", "(g (g zero))"], vec![(0, 1)]),
            (vec!["(f3 (var $1) (var $2) (var $3))", "(f3 (var $2) (var $3) (var $1))", "(f3 (var $1) (var $2) (var $9))"], vec![(0, 1), (0, 2)]),
            (vec!["(lam $1 (mul (var $1) (var $2)))", "(lam $1 (mul (var $1) (var $3)))"], vec![(0, 1)]),
            (vec!["(add (sub (var $1) (var $1)) (var $2))", "(g one)", "(sub (var $3) (var $3))"], vec![(1, 2)]),
            (vec!["(g (f3 (var $4) (var $2) (var $3)))", "(f3 (var $1) (var $4) (var $2))"], vec![(0, 1)]),
            // handles of classes that are merged away (the other class is bigger), with one and two slots, permuted arguments
            (vec!["(sub (var $1) (var $2))", "(add (var $2) (var $1))", "(g (add (var $2) (var $1)))", "(mul (add (var $2) (var $1)) one)"], vec![(0, 1)]),
            (vec!["(g (var $1))", "(add (var $1) (var $1))", "(g (add (var $1) (var $1)))", "(mul (add (var $1) (var $1)) one)"], vec![(0, 1)]),
            (vec!["(lam $1 (add (var $1) (var $2)))", "(g (var $2))", "(mul (g (var $2)) (g (var $2)))", "(sub (g (var $2)) one)"], vec![(0, 1)]),
            // two e-nodes of one class over the same child classes that only a weighted cost function tells apart (in both
            // orders of appearance, and with the children swapped)
            (vec!["(sub (var $1) (var $2))", "(add (var $1) (var $2))", "(mul (var $3) (var $4))", "(add (var $3) (var $4))", "(sub (var $5) (var $6))", "(mul (var $5) (var $6))", "(g (sub (var $1) (var $2)))"], vec![(0, 1), (2, 3), (4, 5)]),
            (vec!["(add (var $1) (var $2))", "(sub (var $1) (var $2))", "(add (var $3) (var $4))", "(mul (var $3) (var $4))", "(mul (var $5) (var $6))", "(sub (var $5) (var $6))", "(g (g (add (var $1) (var $2))))"], vec![(0, 1), (2, 3), (4, 5)]),
            (vec!["(sub (var $1) (g (g (g (var $2)))))", "(sub (g (g (g (var $2)))) (var $1))", "(add (g (var $3)) (g (g (g (g (var $4))))))", "(add (g (g (g (g (var $4))))) (g (var $3)))"], vec![(0, 1), (2, 3)]),
            // a constant together with a composite term that is cheaper under the per-operator weights, and classes above it
            (vec!["zero", "(g one)"], vec![(0, 1)]),
            (vec!["(add zero (var $1))", "zero", "(g (g one))"], vec![(1, 2)]),
            (vec!["(sub (var $1) (var $1))", "zero", "(g one)", "(mul (sub (var $2) (var $2)) (var $3))"], vec![(0, 1), (1, 2)]),
            // a class that holds TWO leaves of different weight (both insertion orders, both orders of preference through the swapped
            // weights), with classes above it whose least cost depends on the lighter leaf (seed C06-i)
            (vec!["zero", "one", "(g zero)", "(add zero (g one))"], vec![(0, 1)]),
            (vec!["one", "zero", "(g one)", "(mul (g zero) one)", "(lam $1 (add (var $1) zero))"], vec![(0, 1)]),
            (vec!["(var $1)", "zero", "one", "(sub (var $1) (var $1))", "(g (sub (var $2) (var $2)))"], vec![(1, 3), (2, 3)]),
            // one child class at two positions of a node, over the same slots in ANOTHER arrangement (a non-symmetric class): the two
            // sub-terms differ although class and slot set agree (seed C06-j)
            (vec!["(sub (sub (var $1) (var $2)) (sub (var $2) (var $1)))"], vec![]),
            (vec!["(add (sub (var $1) (var $2)) (sub (var $2) (var $1)))", "(mul (f3 (var $1) (var $2) (var $3)) (f3 (var $3) (var $1) (var $2)))", "(lam $1 (lam $2 (mul (sub (var $1) (var $2)) (sub (var $2) (var $1)))))"], vec![]),
            (vec!["(sub (var $1) (var $2))", "(g (sub (var $1) (var $2)))", "(mul (g (sub (var $1) (var $2))) (g (sub (var $2) (var $1))))", "(f3 (sub (var $1) (var $2)) (sub (var $2) (var $1)) (sub (var $1) (var $2)))"], vec![(0, 1)]),
        ];
        for (adds, unions) in hand {
            verif_case(format!("extract after: add {:?}; union {:?}", adds, unions));
            let mut eg = XG::default();
            let ids: Vec<AppliedId> = adds.iter().map(|t| eg.add_expr(RecExpr::<XL>::parse(t).unwrap())).collect();
            for (a, b) in &unions { eg.union(&ids[*a], &ids[*b]); }
            let hs: Vec<(String, AppliedId)> = adds.iter().map(|t| t.to_string()).zip(ids.iter().cloned()).collect();
            if let Err(e) = old_handles_ok(&eg, &hs) { if n < 3 { n += 1; let (c, m) = e.split_once(' ').unwrap(); fails.push(format!("FAIL Extractor::extract {} after add {:?}; union {:?}: {}", c, adds, unions, m)); } }
            if let Err(e) = extraction_ok(&eg) { if n < 3 { n += 1; let (c, m) = e.split_once(' ').unwrap(); fails.push(format!("FAIL Extractor::extract {} after add {:?}; union {:?}: {}", c, adds, unions, m)); } }
        }
        let seeds: u64 = if deep { verif_scale(3000) } else { 150 };
        for seed in 1..=seeds {
            let mut r = Rng(seed.wrapping_mul(0x9E3779B97F4A7C15).wrapping_add(1));
            let t = xterm(&mut r, 3, 3);
            let mask = r.next(1 << 17);
            let used: Vec<&str> = (0..17).filter(|i| mask & (1 << i) != 0).map(|i| XRULES[i].0).collect();
            let rws: Vec<Rewrite<XL, ()>> = (0..17).filter(|i| mask & (1 << i) != 0).map(|i| Rewrite::new(XRULES[i].0, XRULES[i].1, XRULES[i].2)).collect();
            let mut eg = XG::default();
            let mut subs = Vec::new(); subterms_x(&RecExpr::<XL>::parse(&t).unwrap(), &mut subs);
            let hs: Vec<(String, AppliedId)> = subs.iter().map(|s| (s.to_string(), eg.add_expr(s.clone()))).collect();
            for round in 0..3 {
                if eg.total_number_of_nodes() > 300 { break; }
                verif_case(format!("extract every class after round {} of rules {:?} on {} (seed {})", round, used, t, seed));
                apply_rewrites(&mut eg, &rws);
                if let Err(e) = old_handles_ok(&eg, &hs) { if n < 3 { n += 1; let (c, m) = e.split_once(' ').unwrap(); fails.push(format!("FAIL Extractor::extract {} term {} rules {:?} round {} (seed {}): {}", c, t, used, round, seed, m)); } break; }
                if let Err(e) = extraction_ok(&eg) { if n < 3 { n += 1; let (c, m) = e.split_once(' ').unwrap(); fails.push(format!("FAIL Extractor::extract {} term {} rules {:?} round {} (seed {}): {}", c, t, used, round, seed, m)); } break; }
            }
        }
    }
    let costs: [u64; 6] = [0, 1, 2, 3, 10, u64::MAX];
    let mut n = 0;
    for a in costs { for b in costs {
        let (x, y) = (WithOrdRev("x", a), WithOrdRev("y", b));
        if want("WithOrdRev::partial_cmp") && n < 3 && x.partial_cmp(&y) != Some(b.cmp(&a)) { n += 1; fails.push(format!("FAIL WithOrdRev::partial_cmp C06:with_ord_rev.reverse costs {} vs {}: got {:?} expected {:?}", a, b, x.partial_cmp(&y), Some(b.cmp(&a)))); }
        if want("WithOrdRev::cmp") && n < 3 && x.cmp(&y) != b.cmp(&a) { n += 1; fails.push(format!("FAIL WithOrdRev::cmp C06:with_ord_rev.total costs {} vs {}: got {:?} expected {:?}", a, b, x.cmp(&y), b.cmp(&a))); }
    }}
    let _ = Ordering::Equal;
    fails
}
