//! Bounded stand-in / failing-input search for unit U6 (extraction order, default cost) — NOT a proof.
//! host: src/extract/with_ord.rs
//! Bound: AstSize::cost on nodes with 0..4 children and child costs from {0, 1, 2, 7, u64::MAX-1, u64::MAX};
//! WithOrdRev::partial_cmp / cmp on all pairs of costs from {0, 1, 2, 3, 10, u64::MAX}.
use crate::*;
use super::*;
use std::cmp::Ordering;

define_language! {
    pub enum CL {
        Leaf(Slot) = "leaf",
        One(AppliedId) = "one",
        Two(AppliedId, AppliedId) = "two",
        Three(AppliedId, AppliedId, AppliedId) = "three",
        Four(AppliedId, AppliedId, AppliedId, AppliedId) = "four",
    }
}

fn id(i: usize) -> AppliedId { AppliedId::new(Id(i), SlotMap::new()) }

pub fn run(only: &[String]) -> Vec<String> {
    let mut fails = Vec::new();
    let want = |f: &str| only.is_empty() || only.iter().any(|x| x == f);
    if want("AstSize::cost") {
        let vals: [u64; 6] = [0, 1, 2, 7, u64::MAX - 1, u64::MAX];
        let nodes = vec![CL::Leaf(Slot::numeric(0)), CL::One(id(0)), CL::Two(id(0), id(1)), CL::Three(id(0), id(1), id(2)), CL::Four(id(0), id(1), id(2), id(3))];
        let mut n = 0;
        for node in &nodes {
            let k = node.applied_id_occurrences().len();
            let total = vals.len().pow(k as u32);
            for code in 0..total {
                let mut c = code; let mut cs = Vec::new();
                for _ in 0..k { cs.push(vals[c % vals.len()]); c /= vals.len(); }
                verif_case(format!("node {:?} child costs {:?}", node, cs));
                let got = AstSize.cost(node, |i: Id| cs[i.0]);
                let mut e: u64 = 1; for x in &cs { e = e.saturating_add(*x); }
                if got != e && n < 3 { n += 1; fails.push(format!("FAIL AstSize::cost C06:ast_size.sum node {:?} with child costs {:?}: got {} expected {}", node, cs, got, e)); }
            }
        }
    }
    let costs: [u64; 6] = [0, 1, 2, 3, 10, u64::MAX];
    let mut n = 0;
    for a in costs { for b in costs {
        let (x, y) = (WithOrdRev("x", a), WithOrdRev("y", b));
        if want("WithOrdRev::partial_cmp") && n < 3 && x.partial_cmp(&y) != Some(b.cmp(&a)) { n += 1; fails.push(format!("FAIL WithOrdRev::partial_cmp C06:with_ord_rev.reverse costs {} vs {}: got {:?} expected {:?}", a, b, x.partial_cmp(&y), Some(b.cmp(&a)))); }
        if want("WithOrdRev::cmp") && n < 3 && x.cmp(&y) != b.cmp(&a) { n += 1; fails.push(format!("FAIL WithOrdRev::cmp C06:with_ord_rev.total costs {} vs {}: got {:?} expected {:?}", a, b, x.cmp(&y), b.cmp(&a))); }
    }}
    let _ = Ordering::Equal;
    fails
}
