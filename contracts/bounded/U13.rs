//! Bounded stand-in / failing-input search for unit U13 (insertion / lookup) — NOT a proof.
//! functions: EGraph::add EGraph::add_internal EGraph::lookup EGraph::lookup_internal EGraph::mk_sem_applied_id EGraph::shape EGraph::shape_called_from_add
//! Bound: all terms of depth <= 2 over {var, app, lam} with slots from {$x, $y} (about 300 terms), each inserted
//! into a fresh e-graph together with up to two earlier terms; re-insertion literally, alpha-renamed and with
//! renamed free slots; plus lookups through a stored node with a redundant slot (a ternary node united with a binary
//! one in all 6 argument orders, looked up under all 6 renamings).  Covers EGraph::shape (find children + minimise over group variants), which is not under contract.
use crate::*;

define_language! {
    pub enum IL {
        Var(Slot) = "var",
        App(AppliedId, AppliedId) = "app",
        Lam(Bind<AppliedId>) = "lam",
        Sub(AppliedId, AppliedId) = "sub",
        Tri(AppliedId, AppliedId, AppliedId) = "tri",
    }
}

fn terms(depth: usize, names: &[&str]) -> Vec<String> {
    let mut out: Vec<String> = names.iter().map(|n| format!("(var ${})", n)).collect();
    if depth == 0 { return out; }
    let sub = terms(depth - 1, names);
    for n in names { for b in &sub { out.push(format!("(lam ${} {})", n, b)); } }
    for a in sub.iter().take(6) { for b in sub.iter().take(6) { out.push(format!("(app {} {})", a, b)); } }
    out
}
fn rename(t: &str, from: &[&str], to: &[&str]) -> String {
    let mut s = t.to_string();
    for (i, f) in from.iter().enumerate() { s = s.replace(&format!("${}", f), &format!("$#{}#", i)); }
    for (i, g) in to.iter().enumerate() { s = s.replace(&format!("$#{}#", i), &format!("${}", g)); }
    s
}

pub fn run(only: &[String]) -> Vec<String> {
    let mut fails = Vec::new();
    let want = |f: &str| only.is_empty() || only.iter().any(|x| x == f);
    if !(want("EGraph::add") || want("EGraph::lookup") || want("EGraph::add_internal") || want("EGraph::lookup_internal") || want("EGraph::shape") || want("EGraph::mk_sem_applied_id") || want("EGraph::shape_called_from_add")) { return fails; }
    let label = if only.len() == 1 { only[0].clone() } else { "EGraph::add".to_string() };
    let ts = terms(2, &["x", "y"]);
    for (k, t) in ts.iter().enumerate() {
        verif_case(format!("term {}", t));
        let mut eg: EGraph<IL> = EGraph::default();
        // some context first
        for j in [k / 3, k / 7] { eg.add_expr(RecExpr::parse(&ts[j]).unwrap()); }
        let re = RecExpr::<IL>::parse(t).unwrap();
        let a = eg.add_expr(re.clone());
        let classes = eg.ids().len();
        let total = eg.total_number_of_nodes();
        // lookup agrees with add and does not modify
        match lookup_rec_expr(&re, &eg) {
            Some(l) if eg.eq(&l, &a) && l == a => {}
            other => { fails.push(format!("FAIL {} C09:lookup.spec term {}: add gave {:?}, lookup gave {:?}", label, t, a, other)); }
        }
        // known terms create nothing: literally, alpha-renamed (bound names), renamed free slots
        for (v, what) in [(t.clone(), "literally"), (rename(t, &["x", "y"], &["y", "x"]), "with $x/$y swapped"), (rename(t, &["x", "y"], &["p", "q"]), "with renamed slots")] {
            let r2 = RecExpr::<IL>::parse(&v).unwrap();
            let b = eg.add_expr(r2);
            if eg.ids().len() != classes || eg.total_number_of_nodes() != total {
                fails.push(format!("FAIL {} C09:add.known-terms-create-nothing term {} re-inserted {} as {}: classes {} -> {}, nodes {} -> {}", label, t, what, v, classes, eg.ids().len(), total, eg.total_number_of_nodes()));
            }
            if what == "literally" && !(b == a) { fails.push(format!("FAIL {} C09:add.agrees-with-lookup term {} re-inserted literally: {:?} vs {:?}", label, t, a, b)); }
            if b.id != a.id { fails.push(format!("FAIL {} C09:add.agrees-with-lookup term {} re-inserted {}: class {:?} vs {:?}", label, t, what, a.id, b.id)); }
        }
        if fails.len() >= 3 { break; }
    }
    // a class with a symmetry: (sub x y) = (sub y x); then every arrangement is known, and so are terms built on it
    if fails.len() < 3 {
        let mut eg: EGraph<IL> = EGraph::default();
        let a = eg.add_expr(RecExpr::parse("(sub (var $x) (var $y))").unwrap());
        let b = eg.add_expr(RecExpr::parse("(sub (var $y) (var $x))").unwrap());
        eg.union(&a, &b);
        let outer = eg.add_expr(RecExpr::parse("(app (sub (var $x) (var $y)) (var $x))").unwrap());
        let classes = eg.ids().len();
        for text in ["(sub (var $p) (var $q))", "(sub (var $q) (var $p))", "(app (sub (var $q) (var $p)) (var $p))"] {
            verif_case(format!("commutative sub: {}", text));
            let re = RecExpr::<IL>::parse(text).unwrap();
            let l = lookup_rec_expr(&re, &eg);
            let r = eg.add_expr(re);
            if l.is_none() || eg.ids().len() != classes || l.as_ref() != Some(&r) { fails.push(format!("FAIL {} C09:add.known-terms-create-nothing commutative (sub x y) = (sub y x): {} looked up as {:?}, added as {:?}, classes {} -> {}", label, text, l, r, classes, eg.ids().len())); }
        }
        let swapped = eg.add_expr(RecExpr::parse("(app (sub (var $y) (var $x)) (var $x))").unwrap());
        if !eg.eq(&outer, &swapped) { fails.push(format!("FAIL {} C09:add.agrees-with-lookup commutative sub: (app (sub y x) x) is not the class of (app (sub x y) x)", label)); }
    }
    // a stored node with a redundant slot: union (sub x y) with (tri ..) whose three arguments are x, y and w in every
    // order; w becomes redundant; then tri(t0,t1,t2) must equal sub(t[pos of x], t[pos of y]) for all names
    if fails.len() < 3 {
        let orders: [[&str; 3]; 6] = [["x","y","w"],["x","w","y"],["y","x","w"],["y","w","x"],["w","x","y"],["w","y","x"]];
        let names = ["p", "q", "r"];
        for o in orders {
            let mut eg: EGraph<IL> = EGraph::default();
            let s0 = eg.add_expr(RecExpr::parse("(sub (var $x) (var $y))").unwrap());
            let t0 = eg.add_expr(RecExpr::parse(&format!("(tri (var ${}) (var ${}) (var ${}))", o[0], o[1], o[2])).unwrap());
            eg.union(&s0, &t0);
            let px = o.iter().position(|n| *n == "x").unwrap();
            let py = o.iter().position(|n| *n == "y").unwrap();
            let perms: [[usize; 3]; 6] = [[0,1,2],[0,2,1],[1,0,2],[1,2,0],[2,0,1],[2,1,0]];
            for pm in perms {
                let t = [names[pm[0]], names[pm[1]], names[pm[2]]];
                let text = format!("(tri (var ${}) (var ${}) (var ${}))", t[0], t[1], t[2]);
                verif_case(format!("after union of (sub x y) with (tri {} {} {}): {}", o[0], o[1], o[2], text));
                let expect = eg.add_expr(RecExpr::parse(&format!("(sub (var ${}) (var ${}))", t[px], t[py])).unwrap());
                let classes = eg.ids().len();
                let re = RecExpr::<IL>::parse(&text).unwrap();
                let l = lookup_rec_expr(&re, &eg);
                let a = eg.add_expr(re);
                let ok = l.as_ref().map(|l| eg.eq(l, &expect) && *l == a).unwrap_or(false) && eg.eq(&a, &expect) && eg.ids().len() == classes;
                if !ok { fails.push(format!("FAIL {} C09:lookup_internal.spec after union of (sub x y) with (tri {} {} {}): {} looked up as {:?}, added as {:?}, expected {:?} (classes {} -> {})", label, o[0], o[1], o[2], text, l, a, expect, classes, eg.ids().len())); }
                if fails.len() >= 3 { return fails; }
            }
        }
    }
    fails
}
