//! Bounded stand-in / failing-input search for unit U4 (permutation group) — NOT a proof.
//! host: src/group/mod.rs
//! functions: Group::add_set Group::all_perms Group::contains Group::count Group::is_trivial Group::new Group::orbit
//! Bound: every generator set of size <= 2 over the 24 permutations of 4 slots (and all 6 of 3 slots):
//! contains / count / all_perms / orbit / add_set compared with brute-force closure; incremental growth (new with one
//! generator, then add of a second): every ordered pair over S4, 120 x 15 (deep: 120 x 30) pairs over S5, 45 pairs over S6.
use crate::*;
use super::*;

fn sl(i: u32) -> Slot { Slot::numeric(i) }
fn perms(n: usize) -> Vec<Vec<usize>> {
    fn rec(cur: &mut Vec<usize>, used: &mut Vec<bool>, n: usize, out: &mut Vec<Vec<usize>>) {
        if cur.len() == n { out.push(cur.clone()); return; }
        for i in 0..n { if !used[i] { used[i] = true; cur.push(i); rec(cur, used, n, out); cur.pop(); used[i] = false; } }
    }
    let mut out = Vec::new(); rec(&mut Vec::new(), &mut vec![false; n], n, &mut out); out
}
fn to_perm(p: &Vec<usize>) -> Perm { let mut m = SlotMap::new(); for (i, j) in p.iter().enumerate() { m.insert(sl(i as u32), sl(*j as u32)); } m }
// "x y" = first x then y
fn comp(a: &Vec<usize>, b: &Vec<usize>) -> Vec<usize> { a.iter().map(|i| b[*i]).collect() }
fn closure(n: usize, gens: &Vec<Vec<usize>>) -> Vec<Vec<usize>> {
    let id: Vec<usize> = (0..n).collect();
    let mut set = vec![id];
    loop {
        let mut grew = false;
        for x in set.clone() { for g in gens { let y = comp(&x, g); if !set.contains(&y) { set.push(y); grew = true; } } }
        if !grew { break; }
    }
    set
}

pub fn run(only: &[String]) -> Vec<String> {
    let mut fails = Vec::new();
    let whole = only.iter().any(|x| x.starts_with("Perm::"));   // the Permutation impl underlies every query
    let want = |f: &str| only.is_empty() || whole || only.iter().any(|x| x == f);
    let mut nf = [0usize; 6];
    let deep = std::env::var("VERIF_BOUNDED_DEEP").is_ok();
    // thorough tier: also the 120 permutations of 5 slots (all single generators, every 11th pair)
    for n in if deep { vec![3usize, 4, 5] } else { vec![3usize, 4] } {
        let all = perms(n);
        let omega: SmallHashSet<Slot> = (0..n as u32).map(sl).collect();
        let identity = SlotMap::identity(&omega);
        let mut gensets: Vec<Vec<Vec<usize>>> = vec![vec![]];
        let mut ctr = 0usize;
        for a in &all { gensets.push(vec![a.clone()]); for b in &all { if a < b { ctr += 1; if n < 5 || ctr % 11 == 0 { gensets.push(vec![a.clone(), b.clone()]); } } } }
        if deep && n == 3 { for a in &all { for b in &all { for c in &all { if a < b && b < c { gensets.push(vec![a.clone(), b.clone(), c.clone()]); } } } } }
        for gens in &gensets {
            let gset: HashSet<Perm> = gens.iter().map(to_perm).collect();
            let g: Group<Perm> = Group::new(&identity, gset);
            let cl = closure(n, gens);
            let desc = format!("omega=$0..${} generators={:?}", n - 1, gens);
            if (want("Group::contains") || want("Group::new")) && nf[0] < 3 {
                for p in &all {
                    let got = g.contains(&to_perm(p));
                    if got != cl.contains(p) { nf[0] += 1; fails.push(format!("FAIL Group::contains C10:contains.exact {} contains({:?}) got {} expected {}", desc, p, got, cl.contains(p))); break; }
                }
            }
            if (want("Group::count") || want("Group::new")) && nf[1] < 3 && g.count() != cl.len() { nf[1] += 1; fails.push(format!("FAIL Group::count C10:count.product {} count got {} expected {}", desc, g.count(), cl.len())); }
            if want("Group::is_trivial") && nf[2] < 3 && g.is_trivial() != (cl.len() == 1) { nf[2] += 1; fails.push(format!("FAIL Group::is_trivial C10:is_trivial.chain {} got {}", desc, g.is_trivial())); }
            if want("Group::all_perms") && nf[3] < 3 {
                let ap = g.all_perms();
                let mut ok = ap.len() == cl.len();
                for p in &cl { ok &= ap.iter().filter(|q| **q == to_perm(p)).count() == 1; }
                if !ok { nf[3] += 1; fails.push(format!("FAIL Group::all_perms C10:all_perms {} got {} elements, expected the {} of the closure without duplicates", desc, ap.len(), cl.len())); }
            }
            if want("Group::orbit") && nf[4] < 3 {
                for s in 0..n {
                    let e: SmallHashSet<Slot> = cl.iter().map(|p| sl(p[s] as u32)).collect();
                    if g.orbit(sl(s as u32)) != e { nf[4] += 1; fails.push(format!("FAIL Group::orbit C10:orbit {} orbit(${}) got {:?} expected {:?}", desc, s, g.orbit(sl(s as u32)), e)); break; }
                }
            }
            if want("Group::add_set") && nf[5] < 3 && n == 3 {
                for extra in &all {
                    let mut g2: Group<Perm> = Group::new(&identity, gens.iter().map(to_perm).collect());
                    let grew = g2.add(to_perm(extra));
                    let mut gens2 = gens.clone(); gens2.push(extra.clone());
                    let cl2 = closure(n, &gens2);
                    if grew != (cl2.len() > cl.len()) || g2.count() != cl2.len() { nf[5] += 1; fails.push(format!("FAIL Group::add_set C10:add_set {} add({:?}) reported growth={} count={} expected growth={} count={}", desc, extra, grew, g2.count(), cl2.len() > cl.len(), cl2.len())); break; }
                }
            }
        }
    }
    // incremental growth (Group::add after Group::new), where the order of arrival matters: every ordered pair over S4; over S5
    // every first generator with the 10 transpositions and 10 three-cycles as second one (deep: all 120); over S6 the
    // first generators (01)(23)(45), (012)(345), (01)(23) with every transposition
    if (want("Group::add_set") || want("Group::add") || want("Group::new")) && nf[5] < 3 {
        let mut cases: Vec<(usize, Vec<usize>, Vec<usize>)> = Vec::new();
        let s4 = perms(4);
        for a in &s4 { for b in &s4 { cases.push((4, a.clone(), b.clone())); } }
        let s5 = perms(5);
        let cyc = |p: &Vec<usize>| { let mut seen = vec![false; p.len()]; let mut lens = Vec::new(); for i in 0..p.len() { if !seen[i] { let mut l = 0; let mut j = i; while !seen[j] { seen[j] = true; j = p[j]; l += 1; } if l > 1 { lens.push(l); } } } lens.sort(); lens };
        let seconds: Vec<Vec<usize>> = s5.iter().filter(|p| { let c = cyc(p); c == vec![2] || c == vec![3] }).cloned().collect();
        for a in &s5 { for (k, b) in seconds.iter().enumerate() { if deep || cyc(b) == vec![2] || k % 2 == 0 { cases.push((5, a.clone(), b.clone())); } } }
        let s6_first: Vec<Vec<usize>> = vec![vec![1, 0, 3, 2, 5, 4], vec![1, 2, 0, 4, 5, 3], vec![1, 0, 3, 2, 4, 5]];
        for a in &s6_first { for i in 0..6 { for j in (i + 1)..6 { let mut b: Vec<usize> = (0..6).collect(); b.swap(i, j); cases.push((6, a.clone(), b)); } } }
        for (n, a, b) in cases {
            if nf[5] >= 3 { break; }
            verif_case(format!("Group::add: omega=$0..${} first generator {:?}, then add {:?}", n - 1, a, b));
            let omega: SmallHashSet<Slot> = (0..n as u32).map(sl).collect();
            let identity = SlotMap::identity(&omega);
            let mut g: Group<Perm> = Group::new(&identity, [to_perm(&a)].into_iter().collect());
            let c1 = closure(n, &vec![a.clone()]);
            let grew = g.add(to_perm(&b));
            let cl = closure(n, &vec![a.clone(), b.clone()]);
            let mut bad = grew != (cl.len() > c1.len()) || g.count() != cl.len();
            if !bad && n <= 5 { for q in &perms(n) { if g.contains(&to_perm(q)) != cl.contains(q) { bad = true; break; } } }
            if !bad && n == 6 { for q in &cl { if !g.contains(&to_perm(q)) { bad = true; break; } } }
            if bad { nf[5] += 1; fails.push(format!("FAIL Group::add_set C10:add_set omega=$0..${} generators [{:?}] then add({:?}): reported growth={} count={}, the generated group has {} elements (growth {})", n - 1, a, b, grew, g.count(), cl.len(), cl.len() > c1.len())); }
        }
    }
    fails
}
