//! Bounded stand-in / failing-input search for unit U11 (EGraph::eq) — NOT a proof.
//! functions: EGraph::eq
//! Bound: the class of (f3 $x $y $z) with every set of at most 2 asserted symmetries out of the 6 argument
//! permutations: eq on all 36 pairs of permuted invocations against the brute-force generated group; plus
//! invocations with a different argument set and of a different class.
use crate::*;

define_language! {
    pub enum EL {
        Var(Slot) = "var",
        F3(AppliedId, AppliedId, AppliedId) = "f3",
    }
}

fn perms3() -> Vec<[usize; 3]> { vec![[0,1,2],[0,2,1],[1,0,2],[1,2,0],[2,0,1],[2,1,0]] }
fn comp(a: &[usize; 3], b: &[usize; 3]) -> [usize; 3] { [b[a[0]], b[a[1]], b[a[2]]] }
fn term(p: &[usize; 3], names: &[&str; 3]) -> String { format!("(f3 (var ${}) (var ${}) (var ${}))", names[p[0]], names[p[1]], names[p[2]]) }

pub fn run(only: &[String]) -> Vec<String> {
    let mut fails = Vec::new();
    let want = |f: &str| only.is_empty() || only.iter().any(|x| x == f);
    if !want("EGraph::eq") { return fails; }
    let ps = perms3();
    let names = ["x", "y", "z"];
    let mut gensets: Vec<Vec<[usize; 3]>> = vec![vec![]];
    for a in &ps { gensets.push(vec![*a]); for b in &ps { if a < b { gensets.push(vec![*a, *b]); } } }
    for gens in &gensets {
        verif_case(format!("symmetries asserted: {:?}", gens));
        let mut eg: EGraph<EL> = EGraph::default();
        let base = eg.add_expr(RecExpr::parse(&term(&ps[0], &names)).unwrap());
        for g in gens { let t = eg.add_expr(RecExpr::parse(&term(g, &names)).unwrap()); eg.union(&base, &t); }
        // brute-force closure (as a set of argument permutations relating two arrangements)
        let mut cl: Vec<[usize; 3]> = vec![ps[0]];
        loop { let mut grew = false; for x in cl.clone() { for g in gens { for y in [comp(&x, g), comp(g, &x)] { if !cl.contains(&y) { cl.push(y); grew = true; } } } } if !grew { break; } }
        let ids: Vec<AppliedId> = ps.iter().map(|p| eg.add_expr(RecExpr::parse(&term(p, &names)).unwrap())).collect();
        for (i, p) in ps.iter().enumerate() { for (j, q) in ps.iter().enumerate() {
            // arrangement p is f3(n[p0], n[p1], n[p2]); an asserted symmetry g says f3(a0,a1,a2) = f3(a[g0],a[g1],a[g2]) for all
            // arguments, so p and q are equal iff q = p . g for some g in the generated group, i.e. p^-1 . q is in it
            let mut pinv = [0usize; 3]; for k in 0..3 { pinv[p[k]] = k; }
            let g = [pinv[q[0]], pinv[q[1]], pinv[q[2]]];
            let expect2 = cl.contains(&g);
            let got = eg.eq(&ids[i], &ids[j]);
            if got != expect2 { fails.push(format!("FAIL EGraph::eq C01:eq.decision asserted symmetries {:?}: eq({}, {}) got {} expected {}", gens, term(p, &names), term(q, &names), got, expect2)); if fails.len() >= 3 { return fails; } }
        }}
        // different argument set / different class
        let other = eg.add_expr(RecExpr::parse("(f3 (var $x) (var $y) (var $w))").unwrap());
        if eg.eq(&ids[0], &other) { fails.push(format!("FAIL EGraph::eq C01:eq.decision asserted symmetries {:?}: (f3 x y z) equals (f3 x y w)", gens)); }
        let v = eg.add_expr(RecExpr::parse("(var $x)").unwrap());
        if eg.eq(&ids[0], &v) { fails.push(format!("FAIL EGraph::eq C01:eq.decision asserted symmetries {:?}: (f3 x y z) equals (var x)", gens)); }
        if fails.len() >= 3 { return fails; }
    }
    // old handles: (g2 x y) merged into (f3 x y z), making z redundant; handles taken before must still compare correctly
    {
        verif_case("old handles across a union that makes a slot redundant".to_string());
        let mut eg: EGraph<EL> = EGraph::default();
        let f = eg.add_expr(RecExpr::parse("(f3 (var $x) (var $y) (var $z))").unwrap());
        let g = eg.add_expr(RecExpr::parse("(f3 (var $x) (var $y) (var $x))").unwrap());
        let f_old = f.clone(); let g_old = g.clone();
        eg.union(&f, &g);
        let f2 = eg.add_expr(RecExpr::parse("(f3 (var $x) (var $y) (var $w))").unwrap());
        let f3 = eg.add_expr(RecExpr::parse("(f3 (var $y) (var $x) (var $w))").unwrap());
        for (a, b, e, what) in [(&f_old, &g_old, true, "f(x,y,z) = f(x,y,x) after their union (old handles)"), (&f_old, &f2, true, "f(x,y,z) = f(x,y,w): the third argument became redundant"), (&f_old, &f3, false, "f(x,y,z) = f(y,x,w) was never asserted")] {
            let got = eg.eq(a, b);
            if got != e { fails.push(format!("FAIL EGraph::eq C01:eq.decision {}: got {} expected {}", what, got, e)); }
        }
    }
    fails
}
